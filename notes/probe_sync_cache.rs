// Design-time probe tests; appended to /repo/src/sync/cache.rs in a scratch copy (see DESIGN.md section 2).
#[cfg(test)]
mod probe {
    use super::{Cache, ConcurrentCacheExt};
    use crate::common::time::Clock;
    use std::time::Duration;

    // late-applied read moves last_accessed backwards -> spurious tti loss
    #[test]
    fn p_backward_la() {
        let c = Cache::builder().max_capacity(10).time_to_idle(Duration::from_secs(10)).build();
        let (clock, mock) = Clock::mock();
        c.set_expiration_clock(Some(clock));
        c.insert(1, 1);
        c.sync();
        mock.increment(Duration::from_secs(2)); // t=2 (no auto sync: > 500ms)
        assert_eq!(c.get(&1), Some(1));          // Hit queued with t=2
        mock.increment(Duration::from_secs(5)); // t=7
        c.insert(1, 2);                          // update at t=7 -> deadline 17
        c.sync();                                // applies read: la=2 -> deadline 12
        mock.increment(Duration::from_secs(6)); // t=13 < 17
        println!("backward_la: get at t=13 -> {:?} (expected Some(2))", c.get(&1));
    }

    // invalidate_all then re-insert, late read hides it
    #[test]
    fn p_backward_la_invalidate_all() {
        let c = Cache::builder().max_capacity(10).build();
        let (clock, mock) = Clock::mock();
        c.set_expiration_clock(Some(clock));
        c.insert(1, 1);
        c.sync();
        mock.increment(Duration::from_secs(2));
        assert_eq!(c.get(&1), Some(1));          // Hit queued t=2
        mock.increment(Duration::from_secs(1));
        c.invalidate_all();                      // va = 3
        mock.increment(Duration::from_secs(1));
        c.insert(1, 2);                          // t=4, update path
        c.sync();
        println!("inv_all: after sync get -> {:?} (expected Some(2))", c.get(&1));
    }

    // replaced-then-rejected: phantom deque node, counters drift
    #[test]
    fn p_phantom() {
        let mut c = Cache::new(1);
        c.reconfigure_for_testing();
        let (clock, mock) = Clock::mock();
        c.set_expiration_clock(Some(clock));
        c.insert("a", 0);
        c.sync();
        // auto-sync regime: insert runs sync before queuing its own op
        c.insert("k", 1);   // Uk1 queued
        c.insert("k", 2);   // map=v2; sync: Uk1 rejected -> remove(k) ; Uk2 queued
        println!("phantom: after 2nd insert get(k) -> {:?}", c.contains_key(&"k"));
        mock.increment(Duration::from_secs(1)); // leave auto-sync regime
        c.get(&"k"); c.get(&"k");               // two misses queued
        c.sync();                               // Uk2: freq(k)=2 > freq(a)=0 -> admitted although not in map
        println!("phantom: ec={} ws={} iter={:?}", c.entry_count(), c.weighted_size(), c.iter().map(|e| *e.key()).collect::<Vec<_>>());
        c.insert("z", 9);
        c.sync();
        println!("phantom: after insert z: ec={} ws={} has_z={}", c.entry_count(), c.weighted_size(), c.contains_key(&"z"));
    }

    // phantom + re-insert + heavy candidate => stale victim pointer
    #[test]
    fn p_uaf() {
        let mut c = Cache::builder().max_capacity(2).weigher(|_k: &&str, v: &u32| *v).build();
        c.reconfigure_for_testing();
        let (clock, mock) = Clock::mock();
        c.set_expiration_clock(Some(clock));
        c.insert("a", 1);
        c.insert("b", 1);
        c.sync();
        c.insert("k", 1);
        c.insert("k", 1);
        mock.increment(Duration::from_secs(1));
        c.get(&"k");
        c.sync();
        println!("uaf: ec={} ws={} keys={:?}", c.entry_count(), c.weighted_size(), c.iter().map(|e| *e.key()).collect::<Vec<_>>());
        c.insert("k", 1);
        c.sync();
        println!("uaf: ec={} ws={} keys={:?}", c.entry_count(), c.weighted_size(), c.iter().map(|e| *e.key()).collect::<Vec<_>>());
        c.get(&"x"); c.get(&"x"); c.get(&"x");
        c.insert("x", 2);
        c.sync();
        println!("uaf: ec={} ws={} keys={:?}", c.entry_count(), c.weighted_size(), c.iter().map(|e| *e.key()).collect::<Vec<_>>());
    }

    #[test]
    fn p_expired_occupy() {
        let c = Cache::builder().max_capacity(2).time_to_live(Duration::from_secs(10)).build();
        let (clock, mock) = Clock::mock();
        c.set_expiration_clock(Some(clock));
        c.insert("a", 1); c.insert("b", 1); c.sync();
        mock.increment(Duration::from_secs(10));
        c.insert("c", 1);
        c.sync();
        println!("expired_occupy: get(c)={:?} ec={} ws={}", c.get(&"c"), c.entry_count(), c.weighted_size());
    }
    #[test]
    fn p_burst() {
        let c = Cache::builder().max_capacity(100).build();
        let (clock, mock) = Clock::mock();
        c.set_expiration_clock(Some(clock));
        mock.increment(Duration::from_secs(1)); // beyond periodic sync interval
        let mut maxlen = 0;
        for i in 0..2000u32 { c.insert(i, i); maxlen = maxlen.max(c.iter().count()); }
        println!("burst: max resident during burst={} ec={} ws={}", maxlen, c.entry_count(), c.weighted_size());
        c.sync();
        println!("burst: after sync resident={} ec={} ws={}", c.iter().count(), c.entry_count(), c.weighted_size());
    }

    #[test]
    fn p_drift() {
        let mut c = Cache::builder().max_capacity(8).weigher(|_k: &&str, v: &u32| *v).build();
        c.reconfigure_for_testing();
        let (clock, mock) = Clock::mock();
        c.set_expiration_clock(Some(clock));
        c.insert("a", 5);
        c.sync();
        c.insert("k", 1);
        c.sync();
        mock.increment(Duration::from_secs(1));
        c.get(&"a");           // a becomes MRU: order [k, a]
        c.sync();
        mock.increment(Duration::from_secs(1));
        c.get(&"x"); c.get(&"x");
        c.insert("x", 3);      // Ux
        c.insert("k", 3);      // Uk2 (weight 1 -> 3), queued after Ux
        c.sync();
        let real: u32 = c.iter().map(|e| *e.value()).sum();
        println!("drift: ec={} ws={} resident={:?} real_weight={}", c.entry_count(), c.weighted_size(),
            { let mut v: Vec<_> = c.iter().map(|e| (*e.key(), *e.value())).collect(); v.sort(); v }, real);
    }

    // public API only: real clock, no test helpers
    #[test]
    fn p_uaf_public() {
        let c = Cache::builder().max_capacity(2).weigher(|_k: &&str, v: &u32| *v).build();
        c.insert("a", 1);
        c.insert("b", 1);
        c.sync();
        c.insert("k", 1);
        c.insert("k", 1);
        std::thread::sleep(Duration::from_millis(600));
        c.get(&"k");
        c.sync();
        c.insert("k", 1);
        c.sync();
        c.get(&"x"); c.get(&"x"); c.get(&"x");
        c.insert("x", 2);
        c.sync();
        println!("uaf_public: survived ec={} ws={}", c.entry_count(), c.weighted_size());
    }
}
