// Design-time probe tests; appended to /repo/src/common/frequency_sketch.rs in a scratch copy (see DESIGN.md section 2).
#[cfg(test)]
mod probe {
    use super::FrequencySketch;

    // greedy search for a hash sequence that maximises the number of odd counters
    #[test]
    fn p_reset_underflow() {
        let mut sk = FrequencySketch::default();
        sk.ensure_capacity(129);
        println!("table_len={} sample_size={}", sk.table.len(), sk.sample_size);
        let mut rng: u64 = 0x9E3779B97F4A7C15;
        let mut next = || { rng ^= rng << 13; rng ^= rng >> 7; rng ^= rng << 17; rng };
        let odd = |sk: &FrequencySketch| -> u32 { sk.table.iter().map(|e| (e & 0x1111_1111_1111_1111).count_ones()).sum() };
        let mut seq = vec![];
        while sk.size + 1 < sk.sample_size {
            // choose among candidates the one whose 4 counters are "most even"
            let mut best = (0u64, -1i32);
            for _ in 0..400 {
                let h = next();
                let start = ((h & 3) << 2) as u8;
                let mut gain = 0i32;
                for i in 0..4u8 {
                    let idx = sk.index_of(h, i);
                    let c = (sk.table[idx] >> ((start + i) << 2)) & 0xF;
                    if c == 15 { gain -= 100; } else if c % 2 == 0 { gain += 1 } else { gain -= 1 }
                }
                if gain > best.1 { best = (h, gain); }
            }
            sk.increment(best.0);
            seq.push(best.0);
        }
        println!("size={} odd={} size>>1={} count>>2={}", sk.size, odd(&sk), sk.size >> 1, odd(&sk) >> 2);
        // one more increment triggers reset
        let h = next();
        let r = std::panic::catch_unwind(std::panic::AssertUnwindSafe(|| { sk.increment(h); sk.size }));
        println!("after reset: {:?}", r);
    }
}
