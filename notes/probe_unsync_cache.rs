// Design-time probe tests; appended to /repo/src/unsync/cache.rs in a scratch copy (see DESIGN.md section 2).
#[cfg(test)]
mod probe {
    use super::Cache;
    use crate::common::time::Clock;
    use std::time::Duration;

    #[test]
    fn p_invalidate_counts() {
        let mut c = Cache::new(10);
        c.insert(1, 1); c.insert(2, 2); c.insert(3, 3);
        c.invalidate(&1);
        println!("after invalidate: ec={} ws={} iter={}", c.entry_count(), c.weighted_size(), c.iter().count());
        c.invalidate_all();
        println!("after invalidate_all: ec={} ws={} iter={}", c.entry_count(), c.weighted_size(), c.iter().count());
    }

    #[test]
    fn p_inv_if_refill() {
        let mut c = Cache::new(4);
        for i in 0..4 { c.insert(i, i); }
        c.invalidate_entries_if(|_, _| true);
        println!("after inv_if: ec={} ws={} iter={}", c.entry_count(), c.weighted_size(), c.iter().count());
        for i in 10..14 { c.insert(i, i); }
        println!("after refill: ec={} ws={} iter={} has10={}", c.entry_count(), c.weighted_size(), c.iter().count(), c.contains_key(&10));
    }

    #[test]
    fn p_ttl_refill() {
        let mut c = Cache::builder().max_capacity(4).time_to_live(Duration::from_secs(10)).build();
        let (clock, mock) = Clock::mock();
        c.set_expiration_clock(Some(clock));
        for i in 0..4 { c.insert(i, i); }
        mock.increment(Duration::from_secs(10));
        println!("expired: has0={} ec={} ws={} iter={}", c.contains_key(&0), c.entry_count(), c.weighted_size(), c.iter().count());
        for i in 10..14 { c.insert(i, i); }
        println!("after refill: ec={} ws={} iter={} has10..13={:?}", c.entry_count(), c.weighted_size(), c.iter().count(), (10..14).map(|k| c.contains_key(&k)).collect::<Vec<_>>());
    }

    fn c15_run(extra: bool) -> Option<u32> {
        let mut c = Cache::builder().max_capacity(3).weigher(|_k: &&str, v: &u32| *v)
            .time_to_live(Duration::from_secs(10)).build();
        let (clock, mock) = Clock::mock();
        c.set_expiration_clock(Some(clock));
        c.insert("y", 1);
        mock.increment(Duration::from_secs(5));
        c.insert("x", 1);
        mock.increment(Duration::from_secs(2));
        assert_eq!(c.get(&"y"), Some(&1));
        mock.increment(Duration::from_secs(1));
        c.insert("z", 1);
        c.insert("z", 2); // grows: ws = 4 > 3
        if extra { c.contains_key(&"q"); }
        mock.increment(Duration::from_secs(2)); // t=10: y expires
        c.get(&"x").copied()
    }
    #[test]
    fn p_c15() {
        println!("c15: without contains_key get(x)={:?}; with contains_key get(x)={:?}", c15_run(false), c15_run(true));
    }
}
