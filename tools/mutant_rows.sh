#!/bin/bash
# usage: mutant_rows.sh <seed-id>...   — like mutant_matrix.sh but only for the named seeds;
# replaces (or appends) their rows in /verif/seeded/MATRIX.md and leaves the other rows alone.
cd /verif
out=/verif/seeded/MATRIX.md
for id in "$@"; do
  d=/verif/seeded/$id
  git -C /repo status --short | grep -q . && { echo "/repo not clean"; exit 2; }
  prop=${id:0:3}
  if git -C /repo apply $d/patch.diff; then
    log=$(timeout 2400 python3 tools/check.py $prop --tier quick 2>&1); rc=$?
    v=$(echo "$log" | grep -m1 VIOLATION | sed 's/|/ /g')
    s=$(echo "$log" | grep -m1 "^\[$prop\]" | sed 's/|/ /g')
    row="| $id | check.py $prop --tier quick | $rc | $v | $s |"
  else
    row="| $id | - | patch does not apply | | |"
  fi
  git -C /repo checkout -- .
  grep -v "^| $id |" $out > $out.tmp; echo "$row" >> $out.tmp
  (head -2 $out.tmp; tail -n +3 $out.tmp | sort) > $out; rm -f $out.tmp
  echo "$row"
done
git -C /repo status --short
