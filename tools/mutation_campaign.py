#!/usr/bin/env python3
"""Mechanical mutation campaign, run in an isolated copy so that /repo and /verif stay untouched.

usage: mutation_campaign.py <n-mutants> [seed] [--keep]

Creates /tmp/camp/repo (git worktree of /repo HEAD) and /tmp/camp/verif (copy of /verif with
the harness pointing at the worktree), then for each sampled single-token mutation of the
library source:
  1. apply it; `cargo test --offline --lib` in the worktree: compile error => discarded,
     a failing unit test => "killed by the suite" (not interesting);
  2. otherwise run all 17 quick checks of the copy (VERIF_REPO=/tmp/camp/repo) and record which
     report a VIOLATION, and whether with a concrete replay or `no-failing-input-found`;
  3. revert.
Survivors of both are equivalent mutants or gaps of the machinery: they are written, with the
diff, to /verif/seeded/campaign/<seed>.json for triage. Removes /tmp/camp at the end.
"""
import json, os, random, re, shutil, subprocess, sys, time, concurrent.futures as cf

N = int(sys.argv[1]) if len(sys.argv) > 1 else 20
SEED = int(sys.argv[2]) if len(sys.argv) > 2 and sys.argv[2].isdigit() else 1
KEEP = "--keep" in sys.argv
CAMP = "/tmp/camp"
REPO, VERIF = CAMP + "/repo", CAMP + "/verif"
FILES = ["src/unsync/cache.rs", "src/sync/base_cache.rs", "src/sync/cache.rs", "src/common/frequency_sketch.rs",
         "src/common/deque.rs", "src/common/concurrent/housekeeper.rs", "src/common/concurrent/deques.rs",
         "src/unsync/deques.rs", "src/common/concurrent.rs", "src/common.rs", "src/common/builder_utils.rs",
         "src/sync/iter.rs", "src/unsync/iter.rs", "src/common/concurrent/atomic_time/atomic_time.rs"]
PROPS = ["C%02d" % i for i in range(1, 18)]
ENV = dict(os.environ, CARGO_NET_OFFLINE="true", VERIF_REPO=REPO)


def sh(cmd, cwd=None, timeout=3600):
    """Runs a shell command in its own process group; on timeout the whole group is killed
    (a mutant may make a unit test loop forever) and rc 124 is returned."""
    import signal
    p = subprocess.Popen(cmd, shell=True, cwd=cwd, env=ENV, stdout=subprocess.PIPE, stderr=subprocess.STDOUT,
                         text=True, start_new_session=True)
    try:
        out, _ = p.communicate(timeout=timeout)
        return p.returncode, out
    except subprocess.TimeoutExpired:
        try:
            os.killpg(p.pid, signal.SIGKILL)
        except ProcessLookupError:
            pass
        out, _ = p.communicate()
        return 124, (out or "") + "\nTIMEOUT"


def setup():
    sh(f"git -C /repo worktree remove --force {REPO}; rm -rf {CAMP}; git -C /repo worktree prune")
    os.makedirs(CAMP)
    rc, out = sh(f"git -C /repo worktree add -q --detach {REPO} HEAD")
    assert rc == 0, out
    rc, out = sh(f"rsync -a --exclude .git --exclude evidence/replays /verif/ {VERIF}/")
    assert rc == 0, out
    ct = open(VERIF + "/harness/Cargo.toml").read().replace('path = "/repo"', f'path = "{REPO}"')
    open(VERIF + "/harness/Cargo.toml", "w").write(ct)
    cfg = VERIF + "/harness/.cargo/config.toml"
    if os.path.exists(cfg):
        c = open(cfg).read().replace("/verif/harness/target", VERIF + "/harness/target")
        open(cfg, "w").write(c)
    for t in ("tools/check.py",):
        c = open(VERIF + "/" + t).read()
        open(VERIF + "/" + t, "w").write(c)


REL = [(">=", ">"), ("<=", "<"), (" > ", " >= "), (" < ", " <= "), ("==", "!="), ("!=", "=="),
       ("&&", "||"), ("||", "&&"), ("saturating_sub", "saturating_add"), (" + 1", " + 2"), (" - 1", " - 0"),
       ("true", "false"), ("false", "true"), ("is_some()", "is_none()"), ("is_none()", "is_some()"),
       (".min(", ".max("), (">> 1", ">> 2"), ("<< 2", "<< 1")]


def candidates():
    out = []
    for f in FILES:
        path = os.path.join(REPO, f)
        if not os.path.exists(path):
            continue
        lines = open(path).read().split("\n")
        in_test = in_hook = False
        for i, l in enumerate(lines):
            s = l.strip()
            nxt = lines[i + 1].strip() if i + 1 < len(lines) else ""
            if s.startswith("#[cfg(test)]") and nxt.startswith("mod "):
                in_test = True        # test modules are at the end of each file
            if (s.startswith("#[cfg(mini_moka_verif") or s.startswith("#[cfg(all(mini_moka_verif")) and (nxt.startswith("impl") or nxt.startswith("mod ")):
                in_hook = True
            if in_test or in_hook or s.startswith("//") or s.startswith("#[") or not s:
                continue
            code = l.split("//")[0]
            if "debug_assert" in code or "assert!" in code or "=>" in code and "->" in code:
                continue
            for a, b in REL:
                for m in re.finditer(re.escape(a), code):
                    if a in (" > ", " < ") and ("->" in code[max(0, m.start() - 2):m.end() + 2] or "<" in code and ">" in code and "(" not in code):
                        continue
                    if a in ("==", "!=", ">=", "<=") and code[m.start() - 1:m.start()] in ("=", "<", ">", "!"):
                        continue
                    out.append((f, i, m.start(), a, b))
            # statement deletion: a lone call statement
            if re.match(r"^\s*(self\.|deqs\.|deq\.|counters\.|entry\.|freq\.|info\.|[a-z_]+\.)[A-Za-z_\.]*\(.*\);\s*$", code) \
                    and "let " not in code and "return" not in code:
                out.append((f, i, -1, "DEL", ""))
            if re.match(r"^\s*self\.[a-z_]+ (-|\+)= .*;\s*$", code):
                out.append((f, i, -1, "DEL", ""))
    return out


def apply(mut):
    f, i, col, a, b = mut
    path = os.path.join(REPO, f)
    lines = open(path).read().split("\n")
    old = lines[i]
    if a == "DEL":
        lines[i] = re.match(r"^\s*", old).group(0) + "// " + old.strip()
    else:
        lines[i] = old[:col] + b + old[col + len(a):]
    open(path, "w").write("\n".join(lines))
    return old, lines[i]


def run_check(p):
    rc, out = sh(f"python3 tools/check.py {p} --tier quick", cwd=VERIF, timeout=2400)
    v = [l for l in out.splitlines() if l.startswith("VIOLATION")]
    return p, rc, v


def main():
    setup()
    rng = random.Random(SEED)
    cands = candidates()
    rng.shuffle(cands)
    print(f"{len(cands)} candidate mutations; sampling {N} (seed {SEED})", flush=True)
    # warm up builds on the unmutated copy; every check must be quiet there
    base = {}
    sh("python3 tools/translate_logic.py; python3 tools/extract_consts.py; cd lean/MiniMoka && lake build", cwd=VERIF)
    for p in PROPS:          # sequentially: concurrent `lake build`s of one package race
        base[p] = run_check(p)
    noisy = [p for p, r in base.items() if r[1] != 0]
    if noisy:
        print("baseline not quiet in the copy:", noisy)
        return 2
    results, done = [], 0
    for mut in cands:
        if done >= N:
            break
        old, new = apply(mut)
        rc, out = sh("cargo test --offline --lib 2>&1 | tail -40", cwd=REPO, timeout=420)
        verdict = {"file": mut[0], "line": mut[1] + 1, "op": f"{mut[3]} -> {mut[4]}" if mut[3] != "DEL" else "delete statement",
                   "old": old.strip(), "new": new.strip()}
        if rc == 124:
            verdict["status"] = "killed-by-suite"      # a unit test hangs
        elif "could not compile" in out or "error[" in out or "error:" in out and "test result" not in out:
            verdict["status"] = "does-not-compile"
        elif "test result: FAILED" in out or "panicked" in out and "test result: ok" not in out:
            verdict["status"] = "killed-by-suite"
        elif "test result: ok" not in out:
            verdict["status"] = "suite-inconclusive"
        else:
            done += 1
            rs = [run_check(p) for p in PROPS]
            caught = {p: ("replay" if any("no-failing-input-found" not in l for l in v) else "tie-only")
                      for p, rc2, v in rs if rc2 != 0 or v}
            verdict["status"] = "caught" if caught else "SURVIVED"
            verdict["caught_by"] = caught
        sh("git checkout -- .", cwd=REPO)
        results.append(verdict)
        print(json.dumps(verdict), flush=True)
        os.makedirs("/verif/seeded/campaign", exist_ok=True)
        json.dump({"seed": SEED, "partial": True, "results": results},
                  open(f"/verif/seeded/campaign/seed{SEED}.json", "w"), indent=1)
    os.makedirs("/verif/seeded/campaign", exist_ok=True)
    summ = {"seed": SEED, "evaluated": done,
            "caught": sum(1 for r in results if r["status"] == "caught"),
            "survived": [r for r in results if r["status"] == "SURVIVED"],
            "killed_by_suite": sum(1 for r in results if r["status"] == "killed-by-suite"),
            "not_compiling": sum(1 for r in results if r["status"] == "does-not-compile"),
            "results": results}
    json.dump(summ, open(f"/verif/seeded/campaign/seed{SEED}.json", "w"), indent=1)
    print(json.dumps({k: v for k, v in summ.items() if k not in ("results",)}, indent=1))
    if not KEEP:
        sh(f"git -C /repo worktree remove --force {REPO}; rm -rf {CAMP}; git -C /repo worktree prune")
    return 0


if __name__ == "__main__":
    sys.exit(main())
