#!/bin/bash
# try single-constant retunings; rebuild the whole Lean library each time; report failures
cd /repo
try() { desc="$1"; shift; "$@"; (cd /verif && python3 tools/extract_consts.py >/dev/null && python3 tools/translate_logic.py >/dev/null && cd lean/MiniMoka && flock .verif-build.lock lake build 2>&1 | grep -E "^error|error:" | head -4 | sed "s/^/[$desc] /"); git -C /repo checkout -- .; }
try "repeats=3" sed -i 's/MAX_SYNC_REPEATS: usize = 4;/MAX_SYNC_REPEATS: usize = 3;/' src/common/concurrent/constants.rs
try "repeats=6" sed -i 's/MAX_SYNC_REPEATS: usize = 4;/MAX_SYNC_REPEATS: usize = 6;/' src/common/concurrent/constants.rs
try "interval=300" sed -i 's/PERIODICAL_SYNC_INTERVAL_MILLIS: u64 = 500;/PERIODICAL_SYNC_INTERVAL_MILLIS: u64 = 300;/' src/common/concurrent/constants.rs
try "interval=1000" sed -i 's/PERIODICAL_SYNC_INTERVAL_MILLIS: u64 = 500;/PERIODICAL_SYNC_INTERVAL_MILLIS: u64 = 1000;/' src/common/concurrent/constants.rs
try "flush=32" sed -i 's/_LOG_FLUSH_POINT: usize = 64;/_LOG_FLUSH_POINT: usize = 32;/' src/common/concurrent/constants.rs
try "flush=100" sed -i 's/_LOG_FLUSH_POINT: usize = 64;/_LOG_FLUSH_POINT: usize = 100;/' src/common/concurrent/constants.rs
try "syncbatch=300" sed -i '639s/= 500;/= 300;/' src/sync/base_cache.rs
try "unsyncbatch=50" sed -i 's/const EVICTION_BATCH_SIZE: usize = 100;/const EVICTION_BATCH_SIZE: usize = 50;/' src/unsync/cache.rs
try "retries=3" sed -i 's/MAX_CONSECUTIVE_RETRIES: usize = 5;/MAX_CONSECUTIVE_RETRIES: usize = 3;/' src/sync/base_cache.rs
cd /verif && python3 tools/extract_consts.py >/dev/null && python3 tools/translate_logic.py >/dev/null && cd lean/MiniMoka && flock .verif-build.lock lake build 2>&1 | grep -E "error|Build completed"
