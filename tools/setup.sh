#!/bin/bash
# Builds the framework from files on disk only (offline): constants, Lean library + driver, harness.
set -e
cd "$(dirname "$0")/.."
export CARGO_NET_OFFLINE=true
python3 tools/extract_consts.py > /dev/null
python3 tools/translate_logic.py > /dev/null
(cd lean/MiniMoka && lake build 2>&1 | tail -3)
(cd harness && cargo build --offline 2>&1 | tail -2)
echo setup-ok
