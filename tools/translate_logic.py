#!/usr/bin/env python3
"""Translator for the decision logic of mini-moka: Rust source -> Lean definitions.

For a fixed list of small functions and conditions of /repo/src (capacity tests, expiry
tests, the three comparisons of TinyLFU admission, the housekeeping trigger, the sketch's
index and sizing arithmetic, the builder's duration limit, and the arithmetic of every counter
update: group Counters, compound assignments read as the new value) this tool parses the Rust text
that is there *now* and writes Lean definitions into lean/MiniMoka/MiniMoka/Gen/Logic/*.lean.
`Lemmas/Agree/*.lean` then prove that the hand-written model uses exactly these functions
(`theorem …_agrees`), so that a change of an operator, operand or constant in the code changes
the generated definition and breaks a proof obligation on the next run, whether or not a
generated history happens to reach the difference.

The Rust subset: `let`, `if`/`else`, `if let Some(x) = e`, `if let (Some(a), Some(b)) = (x, y)`,
`return`, tail expressions, `panic!`/`assert!`, closures in `.map(|x| e)`, integer/boolean
operators, `as` casts, and a table of methods. Anything else is a translation failure: the
definition is left out (with the reason as a comment) and the agreement proof of that group no
longer builds.
"""
import json, os, re, sys

ROOT = os.path.normpath(os.path.join(os.path.dirname(os.path.abspath(__file__)), ".."))
REPO = os.environ.get("VERIF_REPO", "/repo")
OUT = os.environ.get("VERIF_LOGIC_OUT") or os.path.join(ROOT, "lean", "MiniMoka", "MiniMoka", "Gen", "Logic")


class Unsupported(Exception):
    pass


# ---------------------------------------------------------------- lexer
TOK = re.compile(r"""
    (?P<ws>\s+|//[^\n]*)
  | (?P<num>0x[0-9A-Fa-f_]+(?:[ui](?:8|16|32|64|size))?|\d[\d_]*(?:[ui](?:8|16|32|64|size))?)
  | (?P<id>[A-Za-z_][A-Za-z0-9_]*!?)
  | (?P<str>"(?:[^"\\]|\\.)*")
  | (?P<op><<=|>>=|<=|>=|==|!=|&&|\|\||<<|>>|->|=>|::|\+=|-=|\|=|\.\.|[-+*/%&|^!<>=.,;(){}\[\]:?])
""", re.X)


def lex(src):
    out, i = [], 0
    while i < len(src):
        m = TOK.match(src, i)
        if not m:
            raise Unsupported(f"cannot tokenize at: {src[i:i+30]!r}")
        i = m.end()
        if m.lastgroup == "ws":
            continue
        out.append((m.lastgroup, m.group(m.lastgroup)))
    out.append(("eof", ""))
    return out


# ---------------------------------------------------------------- parser (Rust subset -> AST)
BINPREC = {"||": 1, "&&": 2, "==": 3, "!=": 3, "<": 3, ">": 3, "<=": 3, ">=": 3,
           "|": 4, "^": 5, "&": 6, "<<": 7, ">>": 7, "+": 8, "-": 8, "*": 9, "/": 9, "%": 9}


class P:
    def __init__(self, toks):
        self.t, self.i = toks, 0

    def peek(self, k=0):
        return self.t[self.i + k]

    def eat(self, val=None, kind=None):
        k, v = self.t[self.i]
        if (val is not None and v != val) or (kind is not None and k != kind):
            raise Unsupported(f"expected {val or kind}, found {v!r}")
        self.i += 1
        return v

    def at(self, val):
        return self.t[self.i][1] == val and self.t[self.i][0] != "str"

    # blocks and statements
    def block(self):
        self.eat("{")
        stmts = []
        while not self.at("}"):
            stmts.append(self.stmt())
        self.eat("}")
        return stmts

    def stmt(self):
        if self.at("let"):
            self.eat("let")
            if self.at("mut"):
                self.eat("mut")
            pat = self.pattern()
            if self.at(":"):
                self.eat(":")
                self.type_()
            self.eat("=")
            e = self.expr()
            self.eat(";")
            return ("let", pat, e)
        if self.at("return"):
            self.eat("return")
            e = None if self.at(";") else self.expr()
            if self.at(";"):
                self.eat(";")
            return ("return", e)
        if self.at("break"):
            self.eat("break")
            self.eat(";")
            return ("break",)
        if self.at("if"):
            e = self.if_()
            if self.at(";"):
                self.eat(";")
            return ("expr", e)
        e = self.expr()
        if self.at(";"):
            self.eat(";")
            return ("semi", e)
        return ("expr", e)

    def pattern(self):
        if self.at("("):
            self.eat("(")
            ps = [self.pattern()]
            while self.at(","):
                self.eat(",")
                ps.append(self.pattern())
            self.eat(")")
            return ("ptuple", ps)
        if self.at("&"):
            self.eat("&")
            return self.pattern()
        name = self.eat(kind="id")
        if name == "Some":
            self.eat("(")
            inner = self.pattern()
            self.eat(")")
            return ("psome", inner)
        if name == "None":
            return ("pnone",)
        if name == "_":
            return ("pwild",)
        if name in ("true", "false"):
            return ("pbool", name == "true")
        if name in ("ref", "mut"):
            return self.pattern()
        return ("pvar", name)

    def type_(self):
        depth = 0
        while True:
            k, v = self.peek()
            if depth == 0 and v in ("=", ";", ",", ")", "{") and k != "str":
                return
            if v in ("<", "("):
                depth += 1
            if v in (">", ")"):
                depth -= 1
            self.i += 1

    def if_(self):
        self.eat("if")
        if self.at("let"):
            self.eat("let")
            pat = self.pattern()
            self.eat("=")
            scrut = self.expr(no_struct=True)
            then = self.block()
            els = self.else_()
            return ("iflet", pat, scrut, then, els)
        c = self.expr(no_struct=True)
        then = self.block()
        els = self.else_()
        return ("if", c, then, els)

    def else_(self):
        if self.at("else"):
            self.eat("else")
            if self.at("if"):
                return [("expr", self.if_())]
            return self.block()
        return None

    # expressions
    def expr(self, prec=0, no_struct=False):
        lhs = self.unary(no_struct)
        while True:
            k, v = self.peek()
            if v == "as" and k == "id":
                self.eat("as")
                ty = self.eat(kind="id")
                lhs = ("cast", lhs, ty)
                continue
            if k == "op" and v in BINPREC and BINPREC[v] > prec:
                self.eat(v)
                rhs = self.expr(BINPREC[v], no_struct)
                lhs = ("bin", v, lhs, rhs)
                continue
            return lhs

    def unary(self, no_struct):
        k, v = self.peek()
        if k == "op" and v in ("!", "-", "*", "&"):
            self.eat(v)
            if v == "&" and self.at("mut"):
                self.eat("mut")
            e = self.unary(no_struct)
            return e if v in ("*", "&") else ("un", v, e)
        return self.postfix(self.primary(no_struct), no_struct)

    def primary(self, no_struct):
        k, v = self.peek()
        if k == "num":
            self.eat()
            txt = re.sub(r"_?[ui](8|16|32|64|size)$", "", v).replace("_", "")
            return ("num", int(txt, 16) if txt.lower().startswith("0x") else int(txt))
        if v == "(" and k == "op":
            self.eat("(")
            es = [self.expr()]
            while self.at(","):
                self.eat(",")
                es.append(self.expr())
            self.eat(")")
            return es[0] if len(es) == 1 else ("tuple", es)
        if v == "|" and k == "op":
            self.eat("|")
            params = []
            while not self.at("|"):
                params.append(self.pattern())
                if self.at(","):
                    self.eat(",")
            self.eat("|")
            return ("closure", params, self.expr())
        if v == "if":
            return self.if_()
        if v == "match" and k == "id":
            self.eat("match")
            scrut = self.expr(no_struct=True)
            self.eat("{")
            arms = []
            while not self.at("}"):
                pat = self.pattern()
                if self.at("if"):
                    raise Unsupported("match guard")
                self.eat("=>")
                if self.at("{") and self.peek()[0] == "op":
                    body = ("block", self.block())
                else:
                    body = self.expr()
                if self.at(","):
                    self.eat(",")
                arms.append((pat, body))
            self.eat("}")
            return ("match", scrut, arms)
        if v == "{" and k == "op":
            return ("block", self.block())
        if k == "id":
            self.eat()
            if v.endswith("!"):
                # macro: keep the raw argument tokens
                self.eat("(")
                depth, raw = 1, []
                while depth:
                    kk, vv = self.peek()
                    if vv == "(" and kk == "op":
                        depth += 1
                    if vv == ")" and kk == "op":
                        depth -= 1
                    if depth:
                        raw.append((kk, vv))
                    self.i += 1
                return ("macro", v[:-1], raw)
            path = [v]
            while self.at("::"):
                self.eat("::")
                path.append(self.eat(kind="id"))
            if path == ["true"]:
                return ("bool", True)
            if path == ["false"]:
                return ("bool", False)
            return ("var", path[0]) if len(path) == 1 else ("path", path)
        raise Unsupported(f"unexpected token {v!r}")

    def postfix(self, e, no_struct):
        while True:
            k, v = self.peek()
            if v == "." and k == "op":
                self.eat(".")
                name = self.eat()
                if self.at("(") and self.peek()[0] == "op":
                    e = ("mcall", e, name, self.args())
                else:
                    e = ("field", e, name)
            elif v == "(" and k == "op":
                e = ("call", e, self.args())
            elif v == "[" and k == "op":
                self.eat("[")
                idx = self.expr()
                self.eat("]")
                e = ("index", e, idx)
            else:
                return e

    def args(self):
        self.eat("(")
        out = []
        while not self.at(")"):
            out.append(self.expr())
            if self.at(","):
                self.eat(",")
        self.eat(")")
        return out


# ---------------------------------------------------------------- AST -> Lean
PATHS = {("u32", "MAX"): 4294967295, ("i32", "MAX"): 2147483647, ("u8", "MAX"): 255,
         ("u64", "MAX"): 18446744073709551615}


class Tr:
    """dialect 'nat': every integer is an unbounded Nat (the models' convention: counters far
    below 2^64, clock readings far below the Instant range); 'u64': wrapping UInt64."""

    def __init__(self, dialect, env, src=None, depth=0):
        self.d = dialect
        self.env = dict(env)         # let-bound variables -> AST
        self.src = src               # text of the file (comments stripped): private helpers are inlined
        self.depth = depth

    # -- partial evaluation helpers
    def is_false(self, e):
        return e == ("bool", False)

    def expr(self, e):
        k = e[0]
        if k == "num":
            return str(e[1])
        if k == "bool":
            return "true" if e[1] else "false"
        if k == "var":
            if e[1] in self.env:
                return self.expr(self.env[e[1]])
            if e[1] in STATICS:
                return str(STATICS[e[1]])
            return e[1]
        if k == "path":
            if tuple(e[1]) in PATHS:
                return str(PATHS[tuple(e[1])])
            raise Unsupported("path " + "::".join(e[1]))
        if k == "cast":
            return self.expr(e[1])
        if k == "un":
            if e[1] == "!":
                return f"(!{self.expr(e[2])})"
            raise Unsupported("unary " + e[1])
        if k == "some":
            return f"(some {self.expr(e[1])})"
        if k == "index":
            return f"({self.expr(e[1])} {self.expr(e[2])})"
        if k == "bin":
            op, a, b = e[1], self.expr(e[2]), self.expr(e[3])
            if op in ("<", ">", "<=", ">=", "==", "!="):
                lop = {"<": "<", ">": ">", "<=": "≤", ">=": "≥", "==": "=", "!=": "≠"}[op]
                return f"(decide ({a} {lop} {b}))"
            if op in ("&&", "||"):
                return f"({a} {op} {b})"
            if self.d == "nat":
                if op in ("+", "-", "*", "/", "%"):
                    return f"({a} {op} {b})"
                if op == ">>":
                    return f"({a} / 2 ^ {b})"
                if op == "<<":
                    return f"({a} * 2 ^ {b})"
                if op == "&" and e[3][0] == "num" and (e[3][1] & (e[3][1] + 1)) == 0:
                    return f"({a} % {e[3][1] + 1})"          # x & (2^k - 1)
                raise Unsupported("operator " + op + " in the Nat dialect")
            lop = {"+": "+", "-": "-", "*": "*", ">>": ">>>", "<<": "<<<", "&": "&&&", "|": "|||",
                   "^": "^^^"}.get(op)
            if lop is None:
                raise Unsupported("operator " + op)
            return f"({a} {lop} {b})"
        if k == "if":
            c = self.simp(e[1])
            if c == ("bool", False):
                return self.block(e[3], None) if e[3] else "()"
            if e[3] is None:
                raise Unsupported("if without else as a value")
            return f"(if {self.expr(c)} then {self.block(e[2], None)} else {self.block(e[3], None)})"
        if k == "iflet":
            if e[4] is None:
                raise Unsupported("if let without else as a value")
            return self.iflet(e, None)
        if k == "block":
            return self.block(e[1], None)
        if k == "mcall":
            return self.mcall(e)
        if k == "lean":
            return e[1]
        if k == "match":
            return self.match_(e, None)
        if k == "field":
            raise Unsupported(f"field access .{e[2]} (not in the substitution table)")
        if k == "call":
            name = None
            if e[1][0] == "var":
                name = e[1][1]
            elif e[1][0] == "path" and len(e[1][1]) == 2 and e[1][1][0] == "Self":
                name = e[1][1][1]
            if name is not None:
                return self.inline(name, e[2])
            raise Unsupported("call of " + json.dumps(e[1])[:40])
        raise Unsupported("expression " + k)

    def pat_lean(self, pat, top=True):
        k = pat[0]
        if k == "psome":
            t = f"some {self.pat_lean(pat[1], False)}"
            return t if top else f"({t})"
        if k == "pnone":
            return "none"
        if k == "pwild":
            return "_"
        if k == "pvar":
            return pat[1]
        if k == "pbool":
            return "true" if pat[1] else "false"
        raise Unsupported("pattern " + json.dumps(pat)[:60])

    @staticmethod
    def pat_vars(pat):
        if pat[0] == "pvar":
            return [pat[1]]
        if pat[0] == "psome":
            return Tr.pat_vars(pat[1])
        if pat[0] == "ptuple":
            return [v for q in pat[1] for v in Tr.pat_vars(q)]
        return []

    def value(self, body, k):
        if body[0] == "block":
            return self.block(body[1], k)
        if body[0] == "macro" and body[1] in ("panic", "unreachable"):
            raise Unsupported("reachable " + body[1] + "! in a match arm")
        return self.expr(self.simp(body))

    def match_(self, e, k):
        """`match` on an Option, a tuple of Options or a boolean; a scrutinee known to be `Some`
        (a let-bound `checked_add`) selects its arm."""
        _, scrut, arms = e
        sc = self.simp(scrut)
        if sc[0] == "some":
            for pat, body in arms:
                if pat[0] == "psome" and pat[1][0] == "pvar":
                    saved = dict(self.env)
                    self.env[pat[1][1]] = sc[1]
                    try:
                        return self.value(body, k)
                    finally:
                        self.env = saved
                if pat[0] in ("pwild", "pvar"):
                    return self.value(body, k)
            raise Unsupported("no arm for a known Some")
        if sc[0] == "tuple":
            scr, n = ", ".join(self.expr(x) for x in sc[1]), len(sc[1])
        else:
            scr, n = self.expr(sc), 1
        out = []
        for pat, body in arms:
            if n > 1:
                if pat[0] == "ptuple" and len(pat[1]) == n:
                    ps = ", ".join(self.pat_lean(q) for q in pat[1])
                elif pat[0] == "pwild":
                    ps = ", ".join("_" for _ in range(n))
                else:
                    raise Unsupported("pattern " + json.dumps(pat)[:60])
            else:
                ps = self.pat_lean(pat)
            saved = dict(self.env)
            for v in self.pat_vars(pat):
                self.env.pop(v, None)
            try:
                out.append(f"| {ps} => {self.value(body, k)}")
            finally:
                self.env = saved
        return f"(match {scr} with {' '.join(out)})"

    def inline(self, name, args):
        """A call of a private helper of the same file: its body with the arguments bound."""
        if self.src is None or self.depth > 3:
            raise Unsupported("call of " + name)
        m = re.search(r"\bfn\s+" + re.escape(name) + r"\s*(<[^>]*>)?\s*\(", self.src)
        if not m:
            raise Unsupported("call of " + name + " (no such fn in this file)")
        j = _sig_end(self.src, m.end())
        sig = self.src[m.end():j - 1]
        params, depth, cur = [], 0, ""
        for ch in sig:
            if ch in "<([":
                depth += 1
            elif ch in ">)]":
                depth -= 1
            if ch == "," and depth == 0:
                params.append(cur)
                cur = ""
            else:
                cur += ch
        if cur.strip():
            params.append(cur)
        names = [q.split(":")[0].strip().replace("mut ", "") for q in params]
        names = [q for q in names if q not in ("&self", "self", "&mut self")]
        if len(names) != len(args):
            raise Unsupported(f"call of {name}: {len(args)} arguments for {len(names)} parameters")
        body = re.sub(r"\s+", " ", fn_body(self.src, name))
        env = {q: ("lean", self.expr(self.simp(a))) for q, a in zip(names, args)}
        return Tr(self.d, env, self.src, self.depth + 1).block(P(lex(body)).block(), None)

    def simp(self, e):
        """Resolve let-bound Option values: `x.is_none()`, `x.unwrap()` on a known `Some`."""
        if e[0] == "var" and e[1] in self.env:
            return self.simp(self.env[e[1]])
        if e[0] == "tuple":
            return ("tuple", [self.simp(x) for x in e[1]])
        if e[0] == "mcall":
            recv = self.simp(e[1])
            if e[2] == "checked_add" and self.d == "nat":
                return ("some", ("bin", "+", e[1], e[3][0]))
            if recv[0] == "some":
                if e[2] == "is_none":
                    return ("bool", False)
                if e[2] == "is_some":
                    return ("bool", True)
                if e[2] in ("unwrap", "expect"):
                    return recv[1]
        if e[0] == "bin":
            return ("bin", e[1], self.simp(e[2]), self.simp(e[3]))
        return e

    def mcall(self, e):
        e = self.simp(e)
        if e[0] != "mcall":
            return self.expr(e)
        recv, name, args = e[1], e[2], e[3]
        if recv == ("var", "self") and self.src is not None and \
                re.search(r"\bfn\s+" + re.escape(name) + r"\b", self.src):
            return self.inline(name, args)
        # opt.map(|x| body).unwrap_or(d) / .unwrap_or_default()
        if name in ("unwrap_or", "unwrap_or_default") and recv[0] == "mcall" and recv[2] == "map" \
                and recv[3] and recv[3][0][0] == "closure":
            clo = recv[3][0]
            if len(clo[1]) != 1 or clo[1][0][0] != "pvar":
                raise Unsupported("closure pattern")
            d = self.expr(args[0]) if name == "unwrap_or" else "0"
            return (f"(match {self.expr(recv[1])} with | some {clo[1][0][1]} => {self.expr(clo[2])} "
                    f"| none => {d})")
        if name == "map_or" and len(args) == 2 and args[1][0] == "closure" and len(args[1][1]) == 1 \
                and args[1][1][0][0] == "pvar":
            return (f"(match {self.expr(recv)} with | some {args[1][1][0][1]} => {self.expr(args[1][2])} "
                    f"| none => {self.expr(args[0])})")
        if name == "unwrap_or" and recv[0] == "mcall" and recv[2] == "try_into" and \
                args[0] == ("path", ["u32", "MAX"]):
            return f"(min {self.expr(recv[1])} 4294967295)"       # u64 -> u32, clamped
        a = self.expr(recv)
        if name == "saturating_sub":
            if self.d != "nat":
                raise Unsupported("saturating_sub on UInt64")
            return f"({a} - {self.expr(args[0])})"
        # AtomicInstant: the new content of the cell as a function of the old one (`a`)
        if name == "set_instant" and self.d == "nat":
            return self.expr(args[0])
        if name == "advance_to" and self.d == "nat":
            return f"(max {a} {self.expr(args[0])})"
        if name == "saturating_add":
            if self.d != "nat":
                raise Unsupported("saturating_add on UInt64")
            return f"({a} + {self.expr(args[0])})"       # u64, sums assumed below 2^64 (DESIGN §4)
        if name == "saturating_mul":
            return f"(min ({a} * {self.expr(args[0])}) 4294967295)"   # on u32
        if name in ("max", "min"):
            return f"({name} {a} {self.expr(args[0])})"
        if name == "wrapping_add" and self.d == "u64":
            return f"({a} + {self.expr(args[0])})"
        if name == "wrapping_mul" and self.d == "u64":
            return f"({a} * {self.expr(args[0])})"
        if name == "next_power_of_two":
            return f"(Sketch.nextPow2 {a})"
        if name == "count_ones" and self.d == "u64":
            return f"(SketchWord.popCount {a})"
        if name == "is_none":
            return f"({a}).isNone"
        if name == "is_some":
            return f"({a}).isSome"
        raise Unsupported("method ." + name)

    def iflet(self, e, k):
        _, pat, scrut, then, els = e
        rest_else = self.block(els, k) if els is not None else k
        if rest_else is None:
            raise Unsupported("if let falls through to nothing")
        body = self.block(then, k)
        if pat[0] == "psome" and pat[1][0] == "pvar":
            return f"(match {self.expr(scrut)} with | some {pat[1][1]} => {body} | none => {rest_else})"
        if pat[0] == "ptuple" and scrut[0] == "tuple" and len(pat[1]) == len(scrut[1]) and \
                all(p[0] == "psome" and p[1][0] == "pvar" for p in pat[1]):
            ss = ", ".join(self.expr(s) for s in scrut[1])
            ps = ", ".join(f"some {p[1][1]}" for p in pat[1])
            us = ", ".join("_" for _ in pat[1])
            return f"(match {ss} with | {ps} => {body} | {us} => {rest_else})"
        raise Unsupported("pattern " + json.dumps(pat)[:60])

    def block(self, stmts, k):
        """Value of a statement list; `k` = the Lean value of whatever follows it (None: nothing)."""
        if not stmts:
            if k is None:
                raise Unsupported("block without a value")
            return k
        st, rest = stmts[0], stmts[1:]
        kind = st[0]
        if kind == "let":
            if st[1][0] != "pvar":
                raise Unsupported("let pattern")
            saved = dict(self.env)
            self.env[st[1][1]] = self.simp(st[2])
            try:
                return self.block(rest, k)
            finally:
                self.env = saved
        if kind == "return":
            return self.expr(self.simp(st[1]))
        if kind == "expr" and not rest and st[1][0] not in ("if", "iflet"):
            return self.expr(self.simp(st[1]))
        if kind in ("expr", "semi"):
            e = st[1]
            after = (lambda: self.block(rest, k)) if rest or k is not None else None
            if e[0] == "macro" and e[1] in ("panic", "unreachable"):
                raise Unsupported("reachable " + e[1] + "!")
            if e[0] == "macro" and e[1] in ("assert", "debug_assert"):
                return after()
            if e[0] == "if":
                c = self.simp(e[1])
                follows = after() if after else None
                if c == ("bool", False) or self.only_panics(e[2]) and self.is_false(c):
                    return follows
                if self.only_panics(e[2]):
                    # a reachable panic guarded by `c`: the models treat it as outside the domain
                    # (clock readings far below the Instant range); record the guard as dropped
                    raise Unsupported("panic guarded by a condition that does not simplify to false")
                els = self.block(e[3], follows) if e[3] is not None else follows
                if els is None:
                    raise Unsupported("if falls through to nothing")
                return f"(if {self.expr(c)} then {self.block(e[2], follows)} else {els})"
            if e[0] == "iflet":
                follows = after() if after else None
                return self.iflet(e, follows)
            raise Unsupported("statement " + e[0])
        raise Unsupported("statement " + kind)

    @staticmethod
    def only_panics(stmts):
        return len(stmts) == 1 and stmts[0][0] in ("expr", "semi") and stmts[0][1][0] == "macro" \
            and stmts[0][1][1] in ("panic", "unreachable")


# ---------------------------------------------------------------- source extraction
def read(rel):
    return open(os.path.join(REPO, "src", rel)).read()


STATICS = {}          # `static NAME: u64 = 0x…;` of the sketch file, re-read on every run


def load_statics():
    STATICS.clear()
    try:
        src = read("common/frequency_sketch.rs")
    except OSError:
        return
    for m in re.finditer(r"\b(?:static|const)\s+([A-Z][A-Z_0-9]*)\s*:\s*\w+\s*=\s*(0x[0-9A-Fa-f_]+|\d[\d_]*)\s*;", src):
        txt = m.group(2).replace("_", "")
        STATICS[m.group(1)] = int(txt, 16) if txt.lower().startswith("0x") else int(txt)


def fn_body(src, name, nth=0):
    """Text between the braces of the nth `fn name(`."""
    hits = [m for m in re.finditer(r"\bfn\s+" + re.escape(name) + r"\s*(<[^>]*>)?\s*\(", src)]
    if len(hits) <= nth:
        raise Unsupported(f"fn {name} (occurrence {nth}) not found")
    i = src.index("{", _sig_end(src, hits[nth].end()))
    depth, j = 0, i
    while True:
        c = src[j]
        if c == "{":
            depth += 1
        elif c == "}":
            depth -= 1
            if depth == 0:
                return src[i:j + 1]
        j += 1


def _sig_end(src, i):
    depth = 1
    while depth:
        c = src[i]
        depth += (c == "(") - (c == ")")
        i += 1
    return i


def substitute(text, subs):
    text = re.sub(r"\s+", " ", text)
    for a, b in subs:
        text = text.replace(re.sub(r"\s+", " ", a), b)
    return text


# ---------------------------------------------------------------- the list of translated sites
# (group, lean name, file, fn, nth, mode, params, result, dialect, substitutions[, regex])
O, N, B, U = "Option Nat", "Nat", "Bool", "UInt64"
SITES = [
    # capacity
    ("Capacity", "unsync_has_enough_capacity", "unsync/cache.rs", "has_enough_capacity", 0, "fn",
     [("maxCap", O), ("candidate_weight", N), ("ws", N)], B, "nat", [("self.max_capacity", "maxCap")]),
    ("Capacity", "unsync_weights_to_evict", "unsync/cache.rs", "weights_to_evict", 0, "fn",
     [("maxCap", O), ("ws", N)], N, "nat", [("self.max_capacity", "maxCap"), ("self.weighted_size", "ws")]),
    ("Capacity", "unsync_should_enable_sketch", "unsync/cache.rs", "should_enable_frequency_sketch", 0, "fn",
     [("enabled", B), ("maxCap", O), ("ws", N)], B, "nat",
     [("self.frequency_sketch_enabled", "enabled"), ("self.max_capacity", "maxCap"), ("self.weighted_size", "ws")]),
    ("Capacity", "sync_has_enough_capacity", "sync/base_cache.rs", "has_enough_capacity", 0, "fn",
     [("maxCap", O), ("candidate_weight", N), ("ws", N)], B, "nat",
     [("self.max_capacity", "maxCap"), ("counters.weighted_size", "ws")]),
    ("Capacity", "sync_weights_to_evict", "sync/base_cache.rs", "weights_to_evict", 0, "fn",
     [("maxCap", O), ("ws", N)], N, "nat", [("self.max_capacity", "maxCap"), ("counters.weighted_size", "ws")]),
    ("Capacity", "sync_should_enable_sketch", "sync/base_cache.rs", "should_enable_frequency_sketch", 0, "fn",
     [("enabled", B), ("maxCap", O), ("ws", N)], B, "nat",
     [("self.frequency_sketch_enabled.load(Ordering::Acquire)", "enabled"), ("self.max_capacity", "maxCap"),
      ("counters.weighted_size", "ws")]),
    ("Capacity", "sync_too_big", "sync/base_cache.rs", "handle_upsert", 0, "expr",
     [("max", N), ("new_weight", N)], B, "nat", [],
     r"if let Some\(max\) = self\.max_capacity \{ if (?P<e>[^{]+?) \{"),
    ("Capacity", "unsync_too_big", "unsync/cache.rs", "handle_insert", 0, "expr",
     [("max", N), ("policy_weight", N)], B, "nat", [],
     r"if let Some\(max\) = self\.max_capacity \{ if (?P<e>[^{]+?) \{"),
    # expiry
    ("Expiry", "unsync_is_expired_ao", "unsync/cache.rs", "is_expired_entry_ao", 0, "fn",
     [("time_to_idle", O), ("la", O), ("now", N)], B, "nat", [("entry.last_accessed()", "la")]),
    ("Expiry", "unsync_is_expired_wo", "unsync/cache.rs", "is_expired_entry_wo", 0, "fn",
     [("time_to_live", O), ("lm", O), ("now", N)], B, "nat", [("entry.last_modified()", "lm")]),
    ("Expiry", "sync_is_expired_ao", "sync/base_cache.rs", "is_expired_entry_ao", 0, "fn",
     [("time_to_idle", O), ("valid_after", O), ("la", O), ("now", N)], B, "nat",
     [("entry.last_accessed()", "la")]),
    ("Expiry", "sync_is_expired_wo", "sync/base_cache.rs", "is_expired_entry_wo", 0, "fn",
     [("time_to_live", O), ("valid_after", O), ("lm", O), ("now", N)], B, "nat",
     [("entry.last_modified()", "lm")]),
    # admission
    ("Admit", "unsync_admit_continue", "unsync/cache.rs", "admit", 0, "expr",
     [("vw", N), ("cw", N)], B, "nat", [("victims.weight", "vw"), ("candidate.weight", "cw")],
     r"while (?P<e>[^{]+?) \{"),
    ("Admit", "unsync_admit_give_up", "unsync/cache.rs", "admit", 0, "expr",
     [("cf", N), ("vf", N)], B, "nat", [("victims.freq", "vf"), ("candidate.freq", "cf")],
     r"while [^{]+? \{ if (?P<e>[^{]+?) \{ break; \}"),
    ("Admit", "unsync_admit_accept", "unsync/cache.rs", "admit", 0, "expr",
     [("vw", N), ("cw", N), ("cf", N), ("vf", N)], B, "nat",
     [("victims.weight", "vw"), ("candidate.weight", "cw"), ("victims.freq", "vf"), ("candidate.freq", "cf")],
     r"if (?P<e>[^{]+?) \{ AdmissionResult::Admitted"),
    ("Admit", "sync_admit_continue", "sync/base_cache.rs", "admit", 0, "expr",
     [("vw", N), ("cw", N)], B, "nat", [("victims.policy_weight", "vw"), ("candidate.policy_weight", "cw")],
     r"while (?P<e>[^{]+?) \{"),
    ("Admit", "sync_admit_give_up", "sync/base_cache.rs", "admit", 0, "expr",
     [("cf", N), ("vf", N)], B, "nat", [("victims.freq", "vf"), ("candidate.freq", "cf")],
     r"while [^{]+? \{ if (?P<e>[^{]+?) \{ break; \}"),
    ("Admit", "sync_admit_accept", "sync/base_cache.rs", "admit", 0, "expr",
     [("vw", N), ("cw", N), ("cf", N), ("vf", N)], B, "nat",
     [("victims.policy_weight", "vw"), ("candidate.policy_weight", "cw"), ("victims.freq", "vf"), ("candidate.freq", "cf")],
     r"if (?P<e>[^{]+?) \{ AdmissionResult::Admitted"),
    # loop conditions of eviction and of the maintenance loop
    ("Loops", "unsync_evict_stop", "unsync/cache.rs", "evict_lru_entries", 0, "expr",
     [("w", N), ("wte", N)], B, "nat", [("evicted_policy_weight", "w"), ("weights_to_evict", "wte")],
     r"for _ in 0\.\.EVICTION_BATCH_SIZE \{ if (?P<e>[^{]+?) \{ break;"),
    ("Loops", "sync_evict_stop", "sync/base_cache.rs", "evict_lru_entries", 0, "expr",
     [("evicted", N), ("wte", N)], B, "nat", [("weights_to_evict", "wte")],
     r"for _ in 0\.\.batch_size \{ if (?P<e>[^{]+?) \{ break;"),
    ("Loops", "sync_loop_continue", "sync/base_cache.rs", "sync", 0, "expr",
     [("should_sync", B), ("calls", N), ("max_repeats", N)], B, "nat", [],
     r"while (?P<e>[^{]+?) \{"),
    ("Loops", "sync_loop_again", "sync/base_cache.rs", "sync", 0, "expr",
     [("r_len", N), ("w_len", N), ("rfp", N), ("wfp", N)], B, "nat",
     [("self.read_op_ch.len()", "r_len"), ("self.write_op_ch.len()", "w_len"),
      ("READ_LOG_FLUSH_POINT", "rfp"), ("WRITE_LOG_FLUSH_POINT", "wfp")],
     r"calls \+= 1; should_sync = (?P<e>[^;]+);"),
    ("Loops", "sync_evict_needed", "sync/base_cache.rs", "sync", 0, "expr",
     [("weights_to_evict", N)], B, "nat", [], r"if (?P<e>weights_to_evict > 0) \{"),
    # how the lookups combine the two expiry tests; when an applied read moves the idle timer
    ("Lookup", "sync_get_filtered", "sync/base_cache.rs", "get_with_hash", 0, "expr",
     [("wo", B), ("ao", B)], B, "nat",
     [("is_expired_entry_wo(ttl, va, arc_entry, now)", "wo"), ("is_expired_entry_ao(tti, va, arc_entry, now)", "ao")],
     r"let arc_entry = &\*entry; if (?P<e>[^{]+?) \{"),
    ("Lookup", "sync_contains_visible", "sync/base_cache.rs", "contains_key", 0, "expr",
     [("wo", B), ("ao", B)], B, "nat",
     [("is_expired_entry_wo(ttl, va, entry, now)", "wo"), ("is_expired_entry_ao(tti, va, entry, now)", "ao")],
     r"let entry = &\*entry; (?P<e>[^}]+?) \}"),
    ("Lookup", "sync_iter_filtered", "sync/base_cache.rs", "is_expired_entry", 0, "expr",
     [("wo", B), ("ao", B)], B, "nat",
     [("is_expired_entry_wo(ttl, va, entry, now)", "wo"), ("is_expired_entry_ao(tti, va, entry, now)", "ao")],
     r"current_time_from_expiration_clock\(\); (?P<e>[^}]+?) \}"),
    ("Lookup", "sync_read_moves_timer", "sync/base_cache.rs", "apply_reads", 0, "expr",
     [("la", O), ("timestamp", N)], B, "nat", [("entry.last_accessed()", "la")],
     r"freq\.increment\(hash\); if (?P<e>[^{]+?) \{ entry\.set_last_accessed"),
    ("Lookup", "unsync_get_filtered", "unsync/cache.rs", "get", 0, "expr",
     [("wo", B), ("ao", B)], B, "nat",
     [("Self::is_expired_entry_wo(&self.time_to_live, entry, ts)", "wo"),
      ("Self::is_expired_entry_ao(&self.time_to_idle, entry, ts)", "ao")],
     r"\(Some\(entry\), Some\(ts\), deqs\) => \{ if (?P<e>[^{]+?) \{ None"),
    ("Lookup", "unsync_contains_visible", "unsync/cache.rs", "contains_key", 0, "expr",
     [("wo", B), ("ao", B)], B, "nat",
     [("Self::is_expired_entry_wo(&self.time_to_live, entry, ts)", "wo"),
      ("Self::is_expired_entry_ao(&self.time_to_idle, entry, ts)", "ao")],
     r"\(Some\(entry\), Some\(ts\)\) => \{ (?P<e>[^}]+?) \}"),
    ("Lookup", "unsync_iter_filtered", "unsync/cache.rs", "is_expired_entry", 0, "expr",
     [("wo", B), ("ao", B)], B, "nat",
     [("Self::is_expired_entry_wo(&self.time_to_live, entry, now)", "wo"),
      ("Self::is_expired_entry_ao(&self.time_to_idle, entry, now)", "ao")],
     r"current_time_from_expiration_clock\(\); (?P<e>[^}]+?) \}"),
    # identity guards of the maintenance-side removals (the D7 repairs)
    ("Identity", "sync_expire_ao_guard", "sync/base_cache.rs", "remove_expired_ao", 0, "expr",
     [("same_info", B), ("expired", B)], B, "nat",
     [("std::ptr::eq(&**v.entry_info(), *info)", "same_info"), ("is_expired_entry_ao(tti, va, v, now)", "expired")],
     r"remove_if\(key, \|_, v\| \{ (?P<e>[^}]+?) \}\)"),
    ("Identity", "sync_expire_wo_guard", "sync/base_cache.rs", "remove_expired_wo", 0, "expr",
     [("same_info", B), ("expired", B)], B, "nat",
     [("std::ptr::eq(&**v.entry_info(), *info)", "same_info"), ("is_expired_entry_wo(ttl, va, v, now)", "expired")],
     r"remove_if\(key, \|_, v\| \{ (?P<e>[^}]+?) \}\)"),
    ("Identity", "sync_evict_lru_guard", "sync/base_cache.rs", "evict_lru_entries", 0, "expr",
     [("same_info", B), ("lmv", O), ("ts", N)], B, "nat",
     [("std::ptr::eq(&**v.entry_info(), info)", "same_info"), ("v.last_modified()", "lmv")],
     r"remove_if\(&key, \|_, v\| \{ (?P<e>if let Some\(lm\) = .*? else \{ false \}) \}\)"),
    # counter arithmetic: every update of entry_count / weighted_size and of the run-local sums
    # that feed them (where D1-D4, D8 and D10 lived). "assign" = `l op= e;` read as `l op (e)`.
    ("Counters", "unsync_total_add", "unsync/cache.rs", "saturating_add_to_total_weight", 0, "expr",
     [("total", N), ("weight", N)], N, "nat", [], r"\*total = (?P<e>[^;]+);"),
    ("Counters", "unsync_total_sub", "unsync/cache.rs", "saturating_sub_from_total_weight", 0, "expr",
     [("total", N), ("weight", N)], N, "nat", [], r"\*total = (?P<e>[^;]+);"),
    ("Counters", "unsync_invalidate_ec", "unsync/cache.rs", "invalidate", 0, "assign",
     [("entry_count", N)], N, "nat", [], r"self\.(?P<l>entry_count) (?P<op>[-+])= (?P<e>[^;]+);"),
    ("Counters", "unsync_invalidate_sub_arg", "unsync/cache.rs", "invalidate", 0, "expr",
     [("weight", N)], N, "nat", [], r"self\.saturating_sub_from_total_weight\((?P<e>[^;]+)\);"),
    ("Counters", "unsync_invall_ec", "unsync/cache.rs", "invalidate_all", 0, "expr",
     [], N, "nat", [], r"self\.entry_count = (?P<e>[^;]+);"),
    ("Counters", "unsync_invall_ws", "unsync/cache.rs", "invalidate_all", 0, "expr",
     [], N, "nat", [], r"self\.weighted_size = (?P<e>[^;]+);"),
    ("Counters", "unsync_invif_acc", "unsync/cache.rs", "invalidate_entries_if", 0, "expr",
     [("invalidated", N), ("weight", N)], N, "nat", [], r"(?<!mut )invalidated = (?P<e>[^;]+);"),
    ("Counters", "unsync_invif_count", "unsync/cache.rs", "invalidate_entries_if", 0, "assign",
     [("invalidated_count", N)], N, "nat", [], r"(?P<l>invalidated_count) (?P<op>[-+])= (?P<e>[^;]+);"),
    ("Counters", "unsync_invif_ec", "unsync/cache.rs", "invalidate_entries_if", 0, "assign",
     [("entry_count", N), ("invalidated_count", N)], N, "nat", [],
     r"self\.(?P<l>entry_count) (?P<op>[-+])= (?P<e>[^;]+);"),
    ("Counters", "unsync_invif_sub_arg", "unsync/cache.rs", "invalidate_entries_if", 0, "expr",
     [("invalidated", N)], N, "nat", [], r"self\.saturating_sub_from_total_weight\((?P<e>[^;]+)\);"),
    ("Counters", "unsync_insert_ec", "unsync/cache.rs", "handle_insert", 0, "assign",
     [("entry_count", N)], N, "nat", [],
     r"if has_free_space \{.*?self\.(?P<l>entry_count) (?P<op>[-+])= (?P<e>[^;]+);.*?return;"),
    ("Counters", "unsync_insert_add_arg", "unsync/cache.rs", "handle_insert", 0, "expr",
     [("policy_weight", N)], N, "nat", [],
     r"if has_free_space \{.*?self\.saturating_add_to_total_weight\((?P<e>[^;]+)\);.*?return;"),
    ("Counters", "unsync_admit_victim_ec", "unsync/cache.rs", "handle_insert", 0, "assign",
     [("entry_count", N)], N, "nat", [],
     r"for victim in victim_nodes \{.*?self\.(?P<l>entry_count) (?P<op>[-+])= (?P<e>[^;]+); \}"),
    ("Counters", "unsync_admit_ec", "unsync/cache.rs", "handle_insert", 0, "assign",
     [("entry_count", N)], N, "nat", [],
     r"AdmissionResult::Admitted.*?for victim in victim_nodes.*?\} self\.(?P<l>entry_count) (?P<op>[-+])= (?P<e>[^;]+); Self::saturating"),
    ("Counters", "unsync_admit_sub_arg", "unsync/cache.rs", "handle_insert", 0, "expr",
     [("victims_weight", N), ("policy_weight", N)], N, "nat", [],
     r"Self::saturating_sub_from_total_weight\(self, (?P<e>[^;]+)\);"),
    ("Counters", "unsync_admit_add_arg", "unsync/cache.rs", "handle_insert", 0, "expr",
     [("victims_weight", N), ("policy_weight", N)], N, "nat", [],
     r"Self::saturating_add_to_total_weight\(self, (?P<e>[^;]+)\);"),
    ("Counters", "unsync_update_sub_arg", "unsync/cache.rs", "handle_update", 0, "expr",
     [("old_policy_weight", N), ("policy_weight", N)], N, "nat", [],
     r"self\.saturating_sub_from_total_weight\((?P<e>[^;]+)\);"),
    ("Counters", "unsync_update_add_arg", "unsync/cache.rs", "handle_update", 0, "expr",
     [("old_policy_weight", N), ("policy_weight", N)], N, "nat", [],
     r"self\.saturating_add_to_total_weight\((?P<e>[^;]+)\);"),
    ("Counters", "unsync_expire_wo_ec", "unsync/cache.rs", "evict_expired", 0, "assign",
     [("entry_count", N), ("count", N)], N, "nat", [],
     r"remove_expired_wo\([^;]*; self\.(?P<l>entry_count) (?P<op>[-+])= (?P<e>[^;]+);"),
    ("Counters", "unsync_expire_wo_sub_arg", "unsync/cache.rs", "evict_expired", 0, "expr",
     [("count", N), ("weight", N)], N, "nat", [],
     r"remove_expired_wo\([^;]*; self\.entry_count [^;]*; self\.saturating_sub_from_total_weight\((?P<e>[^;]+)\);"),
    ("Counters", "unsync_expire_ao_ec", "unsync/cache.rs", "evict_expired", 0, "assign",
     [("entry_count", N), ("count1", N), ("count2", N), ("count3", N)], N, "nat", [],
     r"rm_expired_ao\(\"protected\"[^;]*; self\.(?P<l>entry_count) (?P<op>[-+])= (?P<e>[^;]+);"),
    ("Counters", "unsync_expire_ao_sub_arg1", "unsync/cache.rs", "evict_expired", 0, "expr",
     [("weight1", N), ("weight2", N), ("weight3", N)], N, "nat", [],
     r"count1 \+ count2 \+ count3; self\.saturating_sub_from_total_weight\((?P<e>[^;]+)\);"),
    ("Counters", "unsync_expire_ao_sub_arg2", "unsync/cache.rs", "evict_expired", 0, "expr",
     [("weight1", N), ("weight2", N), ("weight3", N)], N, "nat", [],
     r"count1 \+ count2 \+ count3; self\.saturating_sub_from_total_weight\([^;]+\); self\.saturating_sub_from_total_weight\((?P<e>[^;]+)\);"),
    ("Counters", "unsync_expire_ao_sub_arg3", "unsync/cache.rs", "evict_expired", 0, "expr",
     [("weight1", N), ("weight2", N), ("weight3", N)], N, "nat", [],
     r"count1 \+ count2 \+ count3; self\.saturating_sub_from_total_weight\([^;]+\); self\.saturating_sub_from_total_weight\([^;]+\); self\.saturating_sub_from_total_weight\((?P<e>[^;]+)\);"),
    ("Counters", "unsync_rm_ao_count", "unsync/cache.rs", "remove_expired_ao", 0, "assign",
     [("evicted_entry_count", N)], N, "nat", [], r"(?P<l>evicted_entry_count) (?P<op>[-+])= (?P<e>[^;]+);"),
    ("Counters", "unsync_rm_ao_acc", "unsync/cache.rs", "remove_expired_ao", 0, "expr",
     [("evicted_policy_weight", N), ("weight", N)], N, "nat", [],
     r"(?<!mut )evicted_policy_weight = (?P<e>[^;]+);"),
    ("Counters", "unsync_rm_wo_count", "unsync/cache.rs", "remove_expired_wo", 0, "assign",
     [("evicted_entry_count", N)], N, "nat", [], r"(?P<l>evicted_entry_count) (?P<op>[-+])= (?P<e>[^;]+);"),
    ("Counters", "unsync_rm_wo_acc", "unsync/cache.rs", "remove_expired_wo", 0, "expr",
     [("evicted_policy_weight", N), ("weight", N)], N, "nat", [],
     r"(?<!mut )evicted_policy_weight = (?P<e>[^;]+);"),
    ("Counters", "unsync_lru_count", "unsync/cache.rs", "evict_lru_entries", 0, "assign",
     [("evicted_count", N)], N, "nat", [], r"(?<!\.)(?P<l>evicted_count) (?P<op>[-+])= (?P<e>[^;]+);"),
    ("Counters", "unsync_lru_acc", "unsync/cache.rs", "evict_lru_entries", 0, "expr",
     [("evicted_policy_weight", N), ("weight", N)], N, "nat", [],
     r"(?<!mut )evicted_policy_weight = (?P<e>[^;]+);"),
    ("Counters", "unsync_lru_ec", "unsync/cache.rs", "evict_lru_entries", 0, "assign",
     [("entry_count", N), ("evicted_count", N)], N, "nat", [],
     r"self\.(?P<l>entry_count) (?P<op>[-+])= (?P<e>[^;]+);"),
    ("Counters", "unsync_lru_sub_arg", "unsync/cache.rs", "evict_lru_entries", 0, "expr",
     [("evicted_policy_weight", N)], N, "nat", [],
     r"self\.saturating_sub_from_total_weight\((?P<e>[^;]+)\);"),
    ("Counters", "sync_counters_add_ec", "sync/base_cache.rs", "saturating_add", 0, "assign",
     [("self_ec", N), ("entry_count", N)], N, "nat", [("self.entry_count", "self_ec")],
     r"(?P<l>self_ec) (?P<op>[-+])= (?P<e>[^;]+);"),
    ("Counters", "sync_counters_add_ws", "sync/base_cache.rs", "saturating_add", 0, "expr",
     [("total", N), ("weight", N)], N, "nat", [], r"\*total = (?P<e>[^;]+);"),
    ("Counters", "sync_counters_sub_ec", "sync/base_cache.rs", "saturating_sub", 0, "assign",
     [("self_ec", N), ("entry_count", N)], N, "nat", [("self.entry_count", "self_ec")],
     r"(?P<l>self_ec) (?P<op>[-+])= (?P<e>[^;]+);"),
    ("Counters", "sync_counters_sub_ws", "sync/base_cache.rs", "saturating_sub", 0, "expr",
     [("total", N), ("weight", N)], N, "nat", [], r"\*total = (?P<e>[^;]+);"),
    ("Counters", "sync_update_sub_n", "sync/base_cache.rs", "handle_upsert", 0, "expr",
     [("accounted", N), ("old_weight", N), ("new_weight", N)], N, "nat", [("entry.policy_weight()", "accounted")],
     r"counters\.saturating_sub\((?P<e>[^,;]+), [^;]+\);"),
    ("Counters", "sync_update_sub_w", "sync/base_cache.rs", "handle_upsert", 0, "expr",
     [("accounted", N), ("old_weight", N), ("new_weight", N)], N, "nat", [("entry.policy_weight()", "accounted")],
     r"counters\.saturating_sub\([^,;]+, (?P<e>[^;]+)\);"),
    ("Counters", "sync_update_add_n", "sync/base_cache.rs", "handle_upsert", 0, "expr",
     [("accounted", N), ("old_weight", N), ("new_weight", N)], N, "nat", [("entry.policy_weight()", "accounted")],
     r"counters\.saturating_add\((?P<e>[^,;]+), [^;]+\);"),
    ("Counters", "sync_update_add_w", "sync/base_cache.rs", "handle_upsert", 0, "expr",
     [("accounted", N), ("old_weight", N), ("new_weight", N)], N, "nat", [("entry.policy_weight()", "accounted")],
     r"counters\.saturating_add\([^,;]+, (?P<e>[^;]+)\);"),
    ("Counters", "sync_update_stored", "sync/base_cache.rs", "handle_upsert", 0, "expr",
     [("accounted", N), ("old_weight", N), ("new_weight", N)], N, "nat", [("entry.policy_weight()", "accounted")],
     r"counters\.saturating_add\([^;]+\); entry\.entry_info\(\)\.set_policy_weight\((?P<e>[^;]+)\);"),
    ("Counters", "sync_admit_add_n", "sync/base_cache.rs", "handle_admit", 0, "expr",
     [("policy_weight", N)], N, "nat", [], r"counters\.saturating_add\((?P<e>[^,;]+), [^;]+\);"),
    ("Counters", "sync_admit_add_w", "sync/base_cache.rs", "handle_admit", 0, "expr",
     [("policy_weight", N)], N, "nat", [], r"counters\.saturating_add\([^,;]+, (?P<e>[^;]+)\);"),
    ("Counters", "sync_admit_stored", "sync/base_cache.rs", "handle_admit", 0, "expr",
     [("policy_weight", N)], N, "nat", [], r"entry\.entry_info\(\)\.set_policy_weight\((?P<e>[^;]+)\);"),
    ("Counters", "sync_remove_sub_n", "sync/base_cache.rs", "handle_remove", 0, "expr",
     [("accounted", N)], N, "nat", [("entry.policy_weight()", "accounted")],
     r"counters\.saturating_sub\((?P<e>[^,;]+), [^;]+\);"),
    ("Counters", "sync_remove_sub_w", "sync/base_cache.rs", "handle_remove", 0, "expr",
     [("accounted", N)], N, "nat", [("entry.policy_weight()", "accounted")],
     r"counters\.saturating_sub\([^,;]+, (?P<e>[^;]+)\);"),
    ("Counters", "sync_remove_deq_sub_n", "sync/base_cache.rs", "handle_remove_with_deques", 0, "expr",
     [("accounted", N)], N, "nat", [("entry.policy_weight()", "accounted")],
     r"counters\.saturating_sub\((?P<e>[^,;]+), [^;]+\);"),
    ("Counters", "sync_remove_deq_sub_w", "sync/base_cache.rs", "handle_remove_with_deques", 0, "expr",
     [("accounted", N)], N, "nat", [("entry.policy_weight()", "accounted")],
     r"counters\.saturating_sub\([^,;]+, (?P<e>[^;]+)\);"),
    ("Counters", "sync_lru_acc", "sync/base_cache.rs", "evict_lru_entries", 0, "expr",
     [("evicted", N), ("weight", N)], N, "nat", [], r"(?<!mut )evicted = (?P<e>[^;]+);"),
    # what a store into a shared timestamp cell leaves there (model T, model V)
    ("Stamps", "entry_set_last_modified", "common/concurrent/entry_info.rs", "set_last_modified", 0, "expr",
     [("old", N), ("timestamp", N)], N, "nat", [("self.last_modified", "old")], r"\{ (?P<e>[^;{}]+); \}"),
    ("Stamps", "entry_set_last_accessed", "common/concurrent/entry_info.rs", "set_last_accessed", 0, "expr",
     [("old", N), ("timestamp", N)], N, "nat", [("self.last_accessed", "old")], r"\{ (?P<e>[^;{}]+); \}"),
    ("Stamps", "valid_after_store", "sync/base_cache.rs", "set_valid_after", 0, "expr",
     [("old", N), ("timestamp", N)], N, "nat", [("self.valid_after", "old")], r"(?P<e>old\.[^;]+);"),
    ("Stamps", "advance_to_moves", "common/concurrent/atomic_time.rs", "advance_to", 0, "expr",
     [("current", O), ("instant", N)], B, "nat", [], r"if (?P<e>[^{]+?) \{ \*current"),
    # when expiry machinery is enabled at all
    ("Enable", "unsync_has_expiry", "unsync/cache.rs", "has_expiry", 0, "fn",
     [("ttl", O), ("tti", O)], B, "nat", [("self.time_to_live", "ttl"), ("self.time_to_idle", "tti")]),
    ("Enable", "sync_has_expiry", "sync/base_cache.rs", "has_expiry", 0, "fn",
     [("ttl", O), ("tti", O)], B, "nat", [("self.time_to_live", "ttl"), ("self.time_to_idle", "tti")]),
    ("Enable", "sync_write_order_enabled", "sync/base_cache.rs", "is_write_order_queue_enabled", 0, "fn",
     [("ttl", O)], B, "nat", [("self.time_to_live", "ttl")]),
    ("Enable", "sync_evict_expired_needed", "sync/base_cache.rs", "sync", 0, "expr",
     [("has_expiry", B), ("has_valid_after", B)], B, "nat",
     [("self.has_expiry()", "has_expiry"), ("self.has_valid_after()", "has_valid_after")],
     r"if (?P<e>has_expiry \|\| has_valid_after) \{ self\.evict_expired"),
    ("Enable", "default_weight", "sync/base_cache.rs", "weigh", 0, "expr",
     [], N, "nat", [], r"unwrap_or\((?P<e>\d+)\)"),
    # housekeeping trigger
    ("Housekeeper", "should_apply", "common/concurrent/housekeeper.rs", "should_apply", 0, "fn",
     [("ch_len", N), ("ch_flush_point", N), ("syncAfter", N), ("now", N)], B, "nat",
     [("self.sync_after.instant().unwrap()", "syncAfter")]),
    # sketch arithmetic
    ("SketchArith", "sketch_capacity", "common.rs", "sketch_capacity", 0, "fn",
     [("max_capacity", N)], N, "nat", []),
    ("SketchArith", "index_of", "common/frequency_sketch.rs", "index_of", 0, "fn",
     [("seed", U), ("table_mask", U), ("hash", U)], U, "u64",
     [("SEED[i]", "seed"), ("self.table_mask as u64", "table_mask"), ("let i = depth as usize;", ""),
      ("let mut hash", "let hash1"), ("hash = hash.wrapping_add(hash >> 32);", "let hash2 = hash1.wrapping_add(hash1 >> 32);"),
      ("(hash & (table_mask)) as usize", "hash2 & table_mask")]),
    ("SketchArith", "reset_size", "common/frequency_sketch.rs", "reset", 0, "expr",
     [("size", N), ("count", N)], N, "nat", [("self.size", "size")],
     r"size = (?P<e>[^;]+);"),
    ("SketchArith", "counter_start", "common/frequency_sketch.rs", "increment", 0, "expr",
     [("hash", N)], N, "nat", [], r"let start = (?P<e>[^;]+?)(?: as u8)?;"),
    ("SketchArith", "age_now", "common/frequency_sketch.rs", "increment", 0, "expr",
     [("size", N), ("sample_size", N)], B, "nat", [("self.size", "size"), ("self.sample_size", "sample_size")],
     r"size \+= 1; if (?P<e>[^{]+?) \{ self\.reset\(\)"),
    ("SketchArith", "sample_size", "common/frequency_sketch.rs", "ensure_capacity", 0, "expr",
     [("cap", N), ("maximum", N)], N, "nat", [], r"self\.sample_size = (?P<e>if [^;]+);"),
    ("SketchArith", "table_size", "common/frequency_sketch.rs", "ensure_capacity", 0, "expr",
     [("maximum", N)], N, "nat", [], r"let table_size = (?P<e>if [^;]+);"),
    # the sketch's bit tricks on one 64-bit word (sixteen 4-bit counters)
    ("SketchBits", "counter_of_word", "common/frequency_sketch.rs", "frequency", 0, "expr",
     [("w", U), ("start", U), ("i", U)], U, "u64", [("self.table[index]", "w")],
     r"let count = \((?P<e>[^;]+)\) as u8;"),
    ("SketchBits", "inc_offset", "common/frequency_sketch.rs", "increment_at", 0, "expr",
     [("counter_index", U)], U, "u64", [], r"let offset = (?P<e>[^;]+);"),
    ("SketchBits", "inc_mask", "common/frequency_sketch.rs", "increment_at", 0, "expr",
     [("offset", U)], U, "u64", [], r"let mask = (?P<e>[^;]+);"),
    ("SketchBits", "inc_room", "common/frequency_sketch.rs", "increment_at", 0, "expr",
     [("w", U), ("mask", U)], B, "u64", [("self.table[table_index]", "w")],
     r"if (?P<e>[^{]+?) \{ w \+="),
    ("SketchBits", "inc_delta", "common/frequency_sketch.rs", "increment_at", 0, "expr",
     [("offset", U)], U, "u64", [("self.table[table_index]", "w")], r"w \+= (?P<e>[^;]+);"),
    ("SketchBits", "odd_counters", "common/frequency_sketch.rs", "reset", 0, "expr",
     [("w", U)], N, "u64", [("*entry", "w")], r"count \+= (?P<e>[^;]+);"),
    ("SketchBits", "halved_word", "common/frequency_sketch.rs", "reset", 0, "expr",
     [("w", U)], U, "u64", [("*entry", "w")], r"count_ones\(\); w = (?P<e>[^;]+);"),
    # configuration
    ("Config", "max_duration_secs", "common/builder_utils.rs", "ensure_expirations_or_panic", 0, "expr",
     [("YEAR_SECONDS", N)], N, "nat", [("1_000", "1000")],
     r"let max_duration = Duration::from_secs\((?P<e>[^;]+)\);"),
    ("Config", "duration_ok", "common/builder_utils.rs", "ensure_expirations_or_panic", 0, "expr",
     [("d", N), ("max_duration", N)], B, "nat", [],
     r"if let Some\(d\) = time_to_live \{ assert!\((?P<e>[^,]+),"),
    ("Config", "duration_ok_tti", "common/builder_utils.rs", "ensure_expirations_or_panic", 0, "expr",
     [("d", N), ("max_duration", N)], B, "nat", [],
     r"if let Some\(d\) = time_to_idle \{ assert!\((?P<e>[^,]+),"),
]


EXTRA_IMPORTS = {"SketchBits": "import MiniMoka.SketchWord\n",
                 # operands a site does not use stay parameters (a changed site may start using them)
                 "Counters": "\nset_option linter.unusedVariables false\n"}


def translate_site(site):
    group, lname, rel, fn, nth, mode, params, result, dialect, subs = site[:10]
    src_text = re.sub(r"//[^\n]*", "", read(rel))
    body = fn_body(read(rel), fn, nth)
    body = re.sub(r"//[^\n]*", "", body)
    text = substitute(body, subs)
    if mode in ("expr", "assign"):
        m = re.search(site[10], text)
        if not m:
            raise Unsupported(f"anchor not found in fn {fn}: {site[10]}")
        # mode "assign": a compound assignment `l op= e;` is read as the new value `l op (e)`
        etext = m.group("e") if mode == "expr" else f"{m.group('l')} {m.group('op')} ({m.group('e')})"
        ast = P(lex(etext)).expr()
        # named intermediates: `let x = e;` statements of the function that precede the site are
        # transparent (best effort; the site's own parameters are never shadowed)
        env = {}
        pnames = {n for n, _ in params}
        for lm in re.finditer(r"\blet (?:mut )?([a-z_][a-z0-9_]*)(?: ?: ?[^=;]+)? = ([^;{}]+);", text[:m.start("e")]):
            if lm.group(1) in pnames:
                continue
            try:
                env[lm.group(1)] = P(lex(lm.group(2))).expr()
            except Unsupported:
                pass
        tr = Tr(dialect, env, src_text)
        lean = tr.expr(tr.simp(ast))
        shown = m.group("e").strip() if mode == "expr" else f"{m.group('l')} {m.group('op')}= {m.group('e').strip()};"
    else:
        stmts = P(lex(text)).block()
        lean = Tr(dialect, {}, src_text).block(stmts, None)
        shown = text.strip()
    sig = " ".join(f"({n} : {t})" for n, t in params)
    doc = f"/-- `{rel}`, fn `{fn}`: `{shown[:300]}` -/"
    return f"{doc}\ndef {lname} {sig} : {result} :=\n  {lean}\n"


def main():
    os.makedirs(OUT, exist_ok=True)
    load_statics()
    groups, failures = {}, []
    for site in SITES:
        try:
            groups.setdefault(site[0], []).append(translate_site(site))
        except Unsupported as e:
            failures.append((site[0], site[1], str(e)))
            groups.setdefault(site[0], []).append(
                f"-- TRANSLATION FAILED for `{site[1]}` ({site[2]}, fn {site[3]}): {e}\n")
        except (OSError, IndexError, ValueError, RecursionError) as e:
            failures.append((site[0], site[1], repr(e)))
            groups.setdefault(site[0], []).append(
                f"-- TRANSLATION FAILED for `{site[1]}` ({site[2]}, fn {site[3]}): {e!r}\n")
    for g, defs in groups.items():
        text = ("/- GENERATED by tools/translate_logic.py from /repo/src on every run. Do not edit. -/\n"
                "import MiniMoka.Sketch\n" + EXTRA_IMPORTS.get(g, "") + "\nnamespace MiniMoka\nnamespace Gen\nnamespace Logic\n\n"
                + "\n".join(defs) + "\nend Logic\nend Gen\nend MiniMoka\n")
        path = os.path.join(OUT, g + ".lean")
        if not os.path.exists(path) or open(path).read() != text:
            open(path, "w").write(text)
    print(json.dumps({"sites": len(SITES), "failures": failures}))
    return 0 if not failures else 1


if __name__ == "__main__":
    sys.exit(main())
