#!/usr/bin/env python3
"""Confirms a seeded mutation in a scratch worktree and files it under /verif/seeded/<name>/.

usage: confirm_seed.py <worktree> <name>
The worktree has mutation/{patch.diff,demo.rs,meta.json}. Steps (all in the worktree):
 1. clean checkout + patch: existing suite passes;  2. + demo: demo fails;
 3. clean checkout + demo (no patch): demo passes.
"""
import json, os, shutil, subprocess, sys

wt, name = sys.argv[1], sys.argv[2]
mut = os.path.join(wt, "mutation")
meta = json.load(open(os.path.join(mut, "meta.json")))
env = dict(os.environ, CARGO_NET_OFFLINE="true")

def sh(cmd):
    p = subprocess.run(cmd, cwd=wt, shell=True, stdout=subprocess.PIPE, stderr=subprocess.STDOUT, text=True, env=env)
    return p.returncode, p.stdout

def clean():
    sh("git checkout -- . && git clean -fdq tests src")

def place_demo():
    app = meta.get("demo_appended_to")
    demo = open(os.path.join(mut, os.path.basename(meta.get("demo_file", "demo.rs")))).read()
    if app:
        with open(os.path.join(wt, app), "a") as f:
            f.write("\n" + demo)
        return "cargo test --offline --lib 2>&1 | tail -15"
    shutil.copy(os.path.join(mut, os.path.basename(meta.get("demo_file", "demo.rs"))), os.path.join(wt, "tests", "seed_demo.rs"))
    return "cargo test --offline --test seed_demo 2>&1 | tail -15"

log = {}
clean()
rc, out = sh("git apply mutation/patch.diff")
assert rc == 0, out
rc, out = sh("cargo test --offline 2>&1 | grep -E 'test result|FAILED|error' | head")
log["suite_with_patch"] = out.strip()
suite_ok = "FAILED" not in out and "error" not in out and "35 passed" in out
cmd = place_demo()
rc, out = sh(cmd)
log["demo_with_patch"] = out.strip()[-600:]
fails_with = ("test result: FAILED" in out) and "could not compile" not in out
clean()
cmd = place_demo()
rc, out = sh(cmd)
log["demo_without_patch"] = out.strip()[-400:]
passes_without = ("test result: ok" in out and "FAILED" not in out and "could not compile" not in out)
clean()
sh("git apply mutation/patch.diff")   # leave as the agent left it
ok = suite_ok and fails_with and passes_without
print(json.dumps({"name": name, "suite_ok": suite_ok, "demo_fails_with_patch": fails_with,
                  "demo_passes_without_patch": passes_without, "confirmed": ok}))
if ok:
    dst = os.path.join("/verif/seeded", name)
    os.makedirs(dst, exist_ok=True)
    for f in os.listdir(mut):
        shutil.copy(os.path.join(mut, f), dst)
    meta["confirmed_by_me"] = {"worktree": wt, "commands": [
        "git apply mutation/patch.diff; cargo test --offline  (existing suite passes)",
        cmd + "  (with patch: fails; without patch: passes)"], "log": log}
    json.dump(meta, open(os.path.join(dst, "meta.json"), "w"), indent=1)
sys.exit(0 if ok else 1)
