#!/usr/bin/env python3
"""Writes MANIFEST.json from tools/props.py (claimed checks) and properties.jsonl."""
import json, os, sys
ROOT = os.path.normpath(os.path.join(os.path.dirname(os.path.abspath(__file__)), ".."))
sys.path.insert(0, os.path.join(ROOT, "tools"))
from props import PROPS

ids = [json.loads(l)["id"] for l in open(os.path.join(ROOT, "properties.jsonl"))]
hooks_commits = os.popen("git -C /repo log --format=%h --grep='^verif hooks'").read().split()
checks = []
for pid in ids:
    if pid not in PROPS:
        continue
    c = PROPS[pid]
    checks.append({
        "property_id": pid,
        "quick_cmd": f"python3 tools/check.py {pid} --tier quick",
        "thorough_cmd": f"python3 tools/check.py {pid} --tier thorough",
        "evidence_file": f"/verif/evidence/{pid}.json",
        "replay_cmd_template": f"python3 tools/check.py {pid} --replay {{path}}",
        "engine": "lean4-proof+correspondence",
        "level_claimed": {"category": c.get("level", "proof"), "text": c["level_text"],
                          "design_ref": c.get("design_ref", "DESIGN.md §5 " + pid)},
        "level_note": c["level_note"],
        "technique": c.get("technique", "Lean 4 theorems over hand-written executable models (single-threaded cache, concurrent cache driven by one thread, abstract concurrent models); models tied to /repo on every run by regenerated constants, decision logic translated from the Rust text with agreement theorems, white-box differential correspondence, the theorem's own oracle judging every implementation trace, and source-site audit"),
    })
na = [{"property_id": pid, "reason": "check under construction in this round: model and correspondence exist, the property theorem is not yet stated in Props/; will be claimed once it is"}
      for pid in ids if pid not in PROPS]
m = {
    "version": 1,
    "setup_cmd": "bash tools/setup.sh",
    "hooks": {"guard": "mini_moka_verif (the phase-split API additionally under mini_moka_verif_phase)",
              "enable": "RUSTFLAGS='--cfg mini_moka_verif --cfg mini_moka_verif_phase' via /verif/harness/.cargo/config.toml (the harness is a path dependency on /repo)",
              "baseline_off_cmd": "cd /repo && cargo test --workspace --no-fail-fast --offline",
              "source_commits": hooks_commits, "add_only": True},
    "engines": [{"name": "lean4-proof+correspondence", "path": "/verif/lean/MiniMoka + /verif/harness + /verif/tools/check.py",
                 "serves_properties": [c["property_id"] for c in checks],
                 "kind_free_text": "Lean 4 models + theorems (lake), Rust-to-Lean translator for decision logic with agreement theorems, native model driver, Rust differential harness with white-box hooks, source-site audit, Miri (thorough)"}],
    "checks": checks,
    "notes": "See DESIGN.md. Every check: regenerate constants and translate the decision logic and the sketch bit tricks (56 sites) from /repo's sources into Lean, lake build the property's theorem modules and the agreement theorems between model and translated logic, audit axioms, rebuild the harness against /repo's working tree, run corpus + generated histories on implementation and model, judge implementation traces with the property's oracle (the Lean function the theorems are about), audit source sites (counts and ordered lock/channel sequences). Thorough tier: 500x the histories, leanchecker on the compiled property modules, and for C08/C11 the real code under Miri.",
    "not_applicable": na,
}
json.dump(m, open(os.path.join(ROOT, "MANIFEST.json"), "w"), indent=1)
print(f"{len(checks)} checks, {len(na)} unclaimed")
