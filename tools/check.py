#!/usr/bin/env python3
"""One entry point for every property check (DESIGN.md §3.5).

  check.py <Cxx> [--tier quick|thorough] [--replay FILE]

Exit 0: the property held on everything explored.  Exit 1: a line
`VIOLATION property=<id> replay=<path>` was printed (ending with
`no-failing-input-found` when a proof obligation or the model/implementation tie broke
but no failing input was found).  `KNOWN-FINDING:` lines are printed for violations listed
in known_findings.json (those do not fail the check).
"""
import argparse, concurrent.futures as cf, hashlib, json, os, re, shutil, subprocess, sys, time

ROOT = os.path.normpath(os.path.join(os.path.dirname(os.path.abspath(__file__)), ".."))
LEAN = os.path.join(ROOT, "lean", "MiniMoka")
HARNESS = os.path.join(ROOT, "harness")
HBIN = os.environ.get("VERIF_HBIN", os.path.join(HARNESS, "target", "debug", "mmharness"))
DRIVER = os.path.join(LEAN, ".lake", "build", "bin", "mmdriver")
SCRATCH = os.path.join(ROOT, "scratch")
EVID = os.path.join(ROOT, "evidence")
REPLAYS = os.path.join(EVID, "replays")
CORPUS = os.path.join(ROOT, "corpus")
REPO = os.environ.get("VERIF_REPO", "/repo")
ALLOWED_AXIOMS = {"propext", "Classical.choice", "Quot.sound"}
BANNED = re.compile(r"\b(sorry|admit|native_decide|bv_decide|implemented_by)\b|^\s*axiom\s|\bunsafe\s|maxHeartbeats\s+0\b")

sys.path.insert(0, os.path.dirname(os.path.abspath(__file__)))
from props import PROPS, AGREE_THEOREMS  # noqa: E402


def log(*a):
    print(*a, file=sys.stderr, flush=True)


def run(cmd, cwd=None, inp=None, timeout=None, env=None):
    e = dict(os.environ)
    e["CARGO_NET_OFFLINE"] = "true"
    if env:
        e.update(env)
    p = subprocess.run(cmd, cwd=cwd, input=inp, stdout=subprocess.PIPE, stderr=subprocess.PIPE,
                       timeout=timeout, env=e, text=True)
    return p.returncode, p.stdout, p.stderr


# ---------------------------------------------------------------------------------------
# step 1: proof side

def regenerate_constants():
    rc, out, err = run([sys.executable, os.path.join(ROOT, "tools", "extract_consts.py")])
    if rc != 0:
        return False, err.strip()
    return True, json.loads(out)


def regenerate_logic():
    """Translate the decision logic of /repo/src into Gen/Logic/*.lean (tools/translate_logic.py).
    Returns the list of (group, definition, reason) that could not be translated."""
    rc, out, err = run([sys.executable, os.path.join(ROOT, "tools", "translate_logic.py")])
    try:
        return [tuple(f) for f in json.loads(out.strip().splitlines()[-1])["failures"]]
    except Exception:
        return [("*", "*", "translator crashed: " + (err or out)[-300:])]


class lean_lock:
    """Serialises everything that writes into the lake package (generated files, `lake build`,
    the axiom audit) across concurrently running checks: concurrent `lake build`s of one
    package race on the build directory."""
    def __enter__(self):
        import fcntl
        self.f = open(os.path.join(LEAN, ".verif-build.lock"), "w")
        fcntl.flock(self.f, fcntl.LOCK_EX)
        return self

    def __exit__(self, *a):
        import fcntl
        fcntl.flock(self.f, fcntl.LOCK_UN)
        self.f.close()


def lake_build(targets):
    rc, out, err = run(["lake", "build"] + targets, cwd=LEAN, timeout=3000)
    text = out + err
    errors = [l for l in text.splitlines() if re.search(r"\berror\b", l)]
    return rc == 0, errors, text


def leanchecker(modules):
    """Thorough tier: re-check the compiled property modules with the independent checker."""
    rc, out, err = run(["lake", "env", "leanchecker"] + modules, cwd=LEAN, timeout=3000)
    return rc == 0, (out + err)[-400:]


def strip_comments(text):
    # remove /- ... -/ (non-nested is enough here) and -- comments
    text = re.sub(r"/-.*?-/", "", text, flags=re.S)
    return "\n".join(l.split("--")[0] for l in text.splitlines())


def library_files():
    """The .lean files `lake build` checks: everything imported (transitively) from the library
    root MiniMoka.lean and from Main.lean. Files nobody imports (work in progress) are not part
    of what is claimed."""
    seen, todo = set(), ["MiniMoka", "Main"]
    while todo:
        mod = todo.pop()
        path = os.path.join(LEAN, *mod.split(".")) + ".lean"
        if mod in seen or not os.path.exists(path):
            continue
        seen.add(mod)
        for l in open(path).read().splitlines():
            m = re.match(r"\s*import\s+(MiniMoka[\w.]*)", l)
            if m:
                todo.append(m.group(1))
    return sorted(os.path.join(LEAN, *m.split(".")) + ".lean" for m in seen)


def grep_banned():
    hits = []
    for path in library_files():
        body = strip_comments(open(path).read())
        for i, l in enumerate(body.splitlines(), 1):
            if BANNED.search(l):
                hits.append(f"{os.path.relpath(path, LEAN)}:{i}: {l.strip()}")
    return hits


def axiom_audit(modules, theorems, tag):
    os.makedirs(SCRATCH, exist_ok=True)
    path = os.path.join(SCRATCH, f"audit_{tag}.lean")
    with open(path, "w") as f:
        for m in modules:
            f.write(f"import {m}\n")
        for t in theorems:
            f.write(f"#print axioms {t}\n")
    rc, out, err = run(["lake", "env", "lean", path], cwd=LEAN, timeout=1200)
    text = out + err
    res = {}
    # "'Name' depends on axioms: [a, b]" or "'Name' does not depend on any axioms"
    for m in re.finditer(r"'([^']+)' depends on axioms: \[([^\]]*)\]", text, re.S):
        res[m.group(1)] = [a.strip() for a in m.group(2).replace("\n", " ").split(",") if a.strip()]
    for m in re.finditer(r"'([^']+)' does not depend on any axioms", text):
        res[m.group(1)] = []
    missing = [t for t in theorems if t not in res]
    bad = {t: [a for a in ax if a not in ALLOWED_AXIOMS] for t, ax in res.items()}
    bad = {t: a for t, a in bad.items() if a}
    return res, missing, bad, text if (rc != 0 or missing) else ""


# ---------------------------------------------------------------------------------------
# step 2: implementation side

def build_harness():
    """Returns (ok, log, phase_ok). The phase-split hooks call private functions of the crate; when
    a change to the crate breaks them, the harness is rebuilt without them (`mini_moka_verif_phase`
    off) so that every component that does not need them still runs against the changed code."""
    global HBIN
    rc, out, err = run(["cargo", "build", "--offline"], cwd=HARNESS, timeout=3000)
    if rc == 0:
        return True, (out + err), True
    first = (out + err)
    tdir = os.path.join(HARNESS, "target", "nophase")
    rc, out, err = run(["cargo", "build", "--offline"], cwd=HARNESS, timeout=3000,
                       env={"RUSTFLAGS": "--cfg mini_moka_verif", "CARGO_TARGET_DIR": tdir})
    if rc == 0:
        HBIN = os.path.join(tdir, "debug", "mmharness")
        os.environ["VERIF_HBIN"] = HBIN          # worker processes read it at import
        return True, first, False
    return False, first + (out + err), False


def limited(cmd):
    # 10 GiB address-space cap: a runaway allocation must not take the sandbox down
    return ["bash", "-c", "ulimit -v 10485760; exec \"$@\"", "--"] + cmd


def gen_ops(kind, seed, ncases, length, profile, blackbox=False):
    capmode = "any"
    if ":" in profile:
        profile, capmode = profile.split(":")
    cmd = [HBIN, "gen", kind, str(seed), str(ncases), str(length), profile,
           "blackbox" if blackbox else "whitebox", capmode]
    rc, out, err = run(cmd, timeout=600)
    if rc != 0:
        raise RuntimeError("generator failed: " + err)
    return out


def run_impl(ops, timeout=150):
    try:
        rc, out, err = run(limited([HBIN, "run"]), inp=ops, timeout=timeout)
    except subprocess.TimeoutExpired:
        return None, "hang"
    if rc != 0:
        return out, f"crash rc={rc} {err[-300:]}"
    return out, None


def run_model(ops, timeout=300):
    try:
        rc, out, err = run(limited([DRIVER, "model"]), inp=ops, timeout=timeout)
    except subprocess.TimeoutExpired:
        return None, "model-timeout"
    if rc != 0:
        return out, f"model-crash rc={rc} {err[-300:]}"
    return out, None


def run_oracle(prop, trace, timeout=600):
    """`prop` may name several oracles joined by '+': a case passes if every one passes."""
    verdicts = {}
    # `#rd k t` notes (kind=inject: the clock reading a scripted insert carries) are for the Python
    # oracle of model T only
    trace = "\n".join(l for l in trace.split("\n") if not l.startswith("#rd "))
    for one in prop.split("+"):
        rc, out, err = run(limited([DRIVER, "oracle", one]), inp=trace, timeout=timeout)
        for l in out.splitlines():
            m = re.match(r"case (\d+) (\S+)(.*)", l)
            if m:
                i = int(m.group(1))
                v = (m.group(2), (one + " " + m.group(3)).strip())
                if i not in verdicts or verdicts[i][0] in ("ok", "SKIP"):
                    verdicts[i] = v
    return verdicts


MAX_NS = 1000 * 365 * 24 * 3600 * 10**9


def py_oracle_C17(case):
    """policy() reports the knobs; build panics iff ttl or tti exceeds 1000 years."""
    cfg = dict(f.split("=", 1) for f in op_of(case[0]).split()[1:] if "=" in f)
    res = case[0].split(" -> ")[-1].strip()
    def dur(x):
        return None if x in (None, "none", "-") else int(x)
    ttl, tti = dur(cfg.get("ttl")), dur(cfg.get("tti"))
    if cfg.get("kind") not in ("unsync", "sync"):
        return True
    want_panic = "builder-ttl" if (ttl is not None and ttl > MAX_NS) else \
        ("builder-tti" if (tti is not None and tti > MAX_NS) else None)
    if want_panic:
        return res == "panic " + want_panic
    if res != "ok":
        return False
    cap = cfg.get("cap")
    exp = "policy cap={} ttl={} tti={}".format("-" if cap in (None, "none") else cap,
                                              "-" if ttl is None else ttl, "-" if tti is None else tti)
    for l in case[1:]:
        if op_of(l) == "policy" and l.split(" -> ")[-1].strip() != exp:
            return False
    # initial_capacity has no observable effect: the same history on the implementation built
    # without it gives the same answers (lookups, iterations, policy)
    if cfg.get("initcap") not in (None, "none", "-") and cfg.get("ctor") != "new" and len(case) > 1:
        ops = [re.sub(r" initcap=\S+", "", op_of(case[0]))] + [op_of(l) for l in case[1:]]
        other, _ = run_impl("\n".join(ops) + "\n", timeout=30)
        oc = split_cases(other or "")
        if not oc:
            return False
        pub = lambda tr: [l for l in tr[1:] if LOOKUP.match(op_of(l)) or op_of(l) == "policy"]
        if pub(case) != pub(oc[0]):
            return False
    return True


def py_oracle_C14(case):
    """Popularity estimator facade: the estimate of a hash is at most 15 and at least the
    number of increments recorded for it (saturating at 15), halved (rounding down) by every
    aging step since; an estimate once observed can only go down through an aging step.
    Aging steps are visible as a drop of the `size` reported after each increment."""
    cfg = dict(f.split("=", 1) for f in op_of(case[0]).split()[1:] if "=" in f)
    if cfg.get("kind") != "sketch":
        return None                   # cache traces: judged by the driver's oracle of the same name
    lb, prev = {}, 0
    for l in case[1:]:
        op, _, ob = l.partition(" -> ")
        w = op.split()
        ob = ob.strip()
        if ob.startswith("panic") or ob == "bad-op":
            return True
        if w[0] == "skt.ensure":
            lb, prev = {}, 0          # the table may have been reallocated: forget everything
        elif w[0] == "skt.inc":
            m = re.match(r"ok size=(\d+)$", ob)
            if not m:
                return False
            n, h = int(m.group(1)), w[1]
            lb[h] = min(15, lb.get(h, 0) + 1)
            if n not in (prev, prev + 1):       # aging: every counter halved
                lb = {k: v // 2 for k, v in lb.items()}
            prev = n
        elif w[0] == "skt.freq":
            m = re.match(r"freq (\d+)$", ob)
            if not m:
                return False
            f = int(m.group(1))
            if f > 15 or f < lb.get(w[1], 0):
                return False
            lb[w[1]] = f
    return True


def py_oracle_C03(case):
    """kind=inject only (other traces are judged by the driver's oracle): the refill epilogue.
    After a phase with map steps injected into maintenance runs: once nothing is injected any more
    and a quiescent snapshot shows the map empty and nothing queued, fresh
    keys of weight 1, each inserted, enqueued and followed by a maintenance run, at most
    `max_capacity` of them, fit in the room left and must all be resident."""
    cfgl = op_of(case[0])
    if " kind=inject " not in cfgl + " ":
        return None
    m = re.search(r" cap=(\d+) w=val ttl=none tti=none ", cfgl)
    if not m:
        return True
    cap = int(m.group(1))
    quiet, armed, inserted, stage, key = False, False, [], 0, None
    holding = set()     # logical threads whose call has taken its map step but not sent its op yet
    for l in case[1:]:
        op = op_of(l)
        w0 = op.split()
        if w0 and w0[0] in ("pins", "pget") and len(w0) >= 3 and not l.rstrip().endswith("bad-op"):
            holding.add(w0[1])
        elif w0 and w0[0] == "pinv" and l.rstrip().endswith("-> held"):
            holding.add(w0[1])
        elif w0 and w0[0] == "penq" and len(w0) == 2:
            holding.discard(w0[1])
        if op == "noinject":
            quiet = True
            continue
        if not quiet:
            continue
        if not armed:
            # quiescent: every started call has completed, nothing is queued, the map is empty
            # (the internal counters are not consulted)
            if op == "snap" and not holding and re.search(r"\bwq=0\b", l) and " map= " in l:
                armed = True
            continue
        w = op.split()
        if stage == 0 and len(w) == 4 and w[0] == "pins" and w[1] == "0" and w[3] == "1" and l.rstrip().endswith("-> ok"):
            key, stage = w[2], 1
        elif stage == 1 and op == "penq 0" and l.rstrip().endswith("-> ok"):
            stage = 2
        elif stage == 2 and op == "sync":
            if key in inserted:
                return True          # not a fresh key: outside the pattern
            inserted.append(key)
            stage = 0
        elif stage == 0 and op == "snap":
            pass
        elif stage == 0 and w[0] == "has" and len(w) == 2:
            if w[1] in inserted and len(inserted) <= cap and not l.rstrip().endswith("-> true"):
                return False
        else:
            return True              # anything else: the epilogue pattern is broken, nothing is owed
    return True


def py_oracle_T(case):
    """kind=inject only; the run-time form of `ConcT_run_fresh` (model T): a value whose insert read
    the clock at r is never returned at a reading >= r + ttl, nor once an invalidate_all with a
    strictly later reading has completed. An insert carries
    the clock of its line, except a scripted whole-call insert that other logical threads overtook
    between its clock reading and its map write: the harness notes its reading (`#rd k t`, just
    before its line). Sound whatever was injected: a value inserted several times for a key counts
    with its LATEST reading."""
    cfgl = op_of(case[0])
    if " kind=inject " not in cfgl + " ":
        return True
    m = re.search(r" ttl=(\d+) ", cfgl + " ")
    if not m:
        return True
    ttl = int(m.group(1))
    now, rd, note, inv = 0, {}, {}, None
    for l in case[1:]:
        if l.startswith("#rd "):
            w = l.split()
            note[w[1]] = int(w[2])
            continue
        if l.rstrip().endswith("bad-op") or " -> panic" in l:
            continue
        w = op_of(l).split()
        res = l.split(" -> ")[-1].strip()
        if not w:
            continue
        if w[0] == "iterover":
            w = w[1:]
        if w[0] in ("adv", "iterlag") and len(w) == 2:
            now += int(w[1])
        elif w[0] == "invall":
            # a completed invalidate_all (a scripted one is printed at its reading, an injected one
            # after it returned): its reading is the clock of its line
            inv = now if inv is None else max(inv, now)
        elif w[0] == "ins" and len(w) == 3:
            r = note.pop(w[1], now)
            rd[(w[1], w[2])] = max(rd.get((w[1], w[2]), 0), r)
        elif w[0] == "pins" and len(w) == 4:
            rd[(w[2], w[3])] = max(rd.get((w[2], w[3]), 0), now)
        elif w[0] in ("get", "pget"):
            k = w[1] if w[0] == "get" else w[2]
            mm = re.match(r"some (\d+)", res)
            if mm:
                r = rd.get((k, mm.group(1)))
                if r is not None and now >= r + ttl:
                    return False
                # the watermark half: no completed invalidate_all has a strictly later reading
                if r is not None and inv is not None and r < inv:
                    return False
    return True


PY_ORACLES = {"T": py_oracle_T, "C17": py_oracle_C17, "C14": py_oracle_C14, "C03": py_oracle_C03}


def judge_all(oracle_id, ic, impl):
    """Verdict per case for an oracle id that may join several oracles with '+': the parts that have a
    Python oracle are judged by it (where it applies to the case: it returns None otherwise and the
    native oracle of that part is asked), the others by the native driver; a case passes if every part does."""
    if not oracle_id:
        return {}
    verdicts = {}
    def merge(i, v):
        if i not in verdicts or verdicts[i][0] in ("ok", "SKIP"):
            verdicts[i] = v
    for one in oracle_id.split("+"):
        if one in PY_ORACLES:
            pv = {i: PY_ORACLES[one](c) for i, c in enumerate(ic)}
            nat = run_oracle(one, impl) if any(v is None for v in pv.values()) else {}
            for i, v in pv.items():
                if v is not None:
                    merge(i, (("ok" if v else "FAIL"), one))
                elif i in nat:
                    merge(i, nat[i])
        else:
            for i, v in run_oracle(one, impl).items():
                merge(i, v)
    return verdicts


def split_cases(text):
    cases, cur = [], None
    for l in text.splitlines():
        if l.startswith("cfg"):
            if cur is not None:
                cases.append(cur)
            cur = [l]
        elif cur is not None and l.strip():
            cur.append(l)
    if cur is not None:
        cases.append(cur)
    return cases


def op_of(line):
    return line.split(" -> ")[0].strip()


LOOKUP = re.compile(r"^(get|has|iter|iterlag|iterover)\b")


def project(line, mode):
    """Projection of a trace line for the model/implementation comparison of a property."""
    op = op_of(line)
    if " -> panic" in line or " -> bad-op" in line or op.startswith("cfg"):
        return line
    if mode == "full":
        return line
    if mode == "lookups":
        return line if LOOKUP.match(op) else None
    if mode == "state":  # lookups + snapshot without the sketch internals
        if LOOKUP.match(op):
            return line
        if op == "snap":
            return re.sub(r" skt=\S+ freq=\S*", "", line)
        return None
    if mode == "counters":
        if op == "snap":
            m = re.search(r"(ec=\d+ ws=\d+).* (map=\S*)", line)
            return "snap " + " ".join(m.groups()) if m else line
        return None
    return line


def first_diff(a, b, mode):
    pa = [x for x in (project(l, mode) for l in a) if x is not None]
    pb = [x for x in (project(l, mode) for l in b) if x is not None]
    for i in range(max(len(pa), len(pb))):
        x = pa[i] if i < len(pa) else "<missing>"
        y = pb[i] if i < len(pb) else "<missing>"
        if x != y:
            return i, x, y
    return None


# ---------------------------------------------------------------------------------------
# shrinking

def shrink(ops_lines, still_fails, budget=400):
    """ddmin over the operation lines (line 0, the cfg line, is kept)."""
    cfg, ops = ops_lines[0], ops_lines[1:]
    n = 2
    calls = 0
    while len(ops) >= 2 and calls < budget:
        chunk = max(1, len(ops) // n)
        removed = False
        i = 0
        while i < len(ops) and calls < budget:
            cand = ops[:i] + ops[i + chunk:]
            calls += 1
            if cand and still_fails([cfg] + cand):
                ops = cand
                n = max(n - 1, 2)
                removed = True
            else:
                i += chunk
        if not removed:
            if chunk == 1:
                break
            n = min(len(ops), n * 2)
    return [cfg] + ops


# ---------------------------------------------------------------------------------------
# source audit

def source_audit(kinds):
    rc, out, err = run([sys.executable, os.path.join(ROOT, "tools", "audit_sources.py")] + kinds)
    try:
        res = json.loads(out)
    except Exception:
        return False, [f"audit failed: {err[-300:]}"]
    return res["ok"], res["problems"]


# ---------------------------------------------------------------------------------------
# known findings

def load_known():
    p = os.path.join(ROOT, "known_findings.json")
    if not os.path.exists(p):
        return []
    return json.load(open(p)).get("findings", [])


def match_known(prop, case_lines, known):
    """A violation is a known finding only if its minimized history matches the signature
    recorded for an *open* finding of this property."""
    text = "\n".join(op_of(l) for l in case_lines)
    for k in known:
        if k.get("status") != "open" or k.get("property") != prop:
            continue
        sig = k.get("signature", {})
        if sig.get("kind") == "metamorphic":
            ok, is_d9, _ = meta_judge(case_lines)
            if (not ok) and is_d9:
                return k
            continue
        if not sig.get("all_regex") and not sig.get("cfg_regex"):
            continue
        if all(re.search(rx, text, re.M) for rx in sig.get("all_regex", [])) and \
           all(re.search(rx, case_lines[0]) for rx in sig.get("cfg_regex", [])):
            return k
    return None


# ---------------------------------------------------------------------------------------
# metamorphic pairs (C15): a history and the same history with extra contains_key / iter calls

XOPS = ("xhas", "xiter", "xsnap")


def is_extra(line):
    return op_of(line).split(" ")[0] in XOPS


def meta_variant(case_ops, seed):
    """Inserts `xsnap; xhas k` / `xsnap; xiter` pairs at pseudo-random positions."""
    x = (seed * 2654435761 + 12345) & 0xFFFFFFFF
    out = [case_ops[0]]
    for l in case_ops[1:]:
        x = (x * 1103515245 + 12345) & 0x7FFFFFFF
        if x % 100 < 22:
            out.append("xsnap")
            out.append("xiter" if (x >> 8) % 4 == 0 else f"xhas {(x >> 12) % 13}")
        out.append(l)
    return out


def meta_compare(variant_trace, base_trace):
    v = [l for l in variant_trace if not is_extra(l)]
    if len(v) != len(base_trace):
        return (0, "<length differs>", "")
    for i, (a, b) in enumerate(zip(v, base_trace)):
        if a != b:
            return (i, a, b)
    return None


def d9_signature(variant_trace):
    """An extra contains_key issued on the unsync cache while weighted_size > max_capacity."""
    cfgl = variant_trace[0]
    m = re.search(r"kind=(\w+).* cap=(\w+)", cfgl)
    if not m or m.group(1) != "unsync" or m.group(2) in ("none", "-"):
        return False
    cap = int(m.group(2))
    for i, l in enumerate(variant_trace[:-1]):
        if op_of(l) == "xsnap" and op_of(variant_trace[i + 1]).startswith("xhas"):
            w = re.search(r" ws=(\d+)", l)
            if w and int(w.group(1)) > cap:
                return True
    return False


def meta_judge(lines):
    """(ok, is_known_D9, detail) for one case that may contain x-ops."""
    variant = "\n".join(op_of(l) for l in lines) + "\n"
    base = "\n".join(op_of(l) for l in lines if not is_extra(l)) + "\n"
    iv, e1 = run_impl(variant, timeout=20)
    ib, e2 = run_impl(base, timeout=20)
    if iv is None or ib is None:
        return False, False, "hang"
    cv, cb = split_cases(iv), split_cases(ib)
    if not cv or not cb:
        return False, False, "no output"
    d = meta_compare(cv[0], cb[0])
    if d is None:
        return True, False, ""
    return False, d9_signature(cv[0]), f"with extras: {d[1][:160]} | without: {d[2][:160]}"


def meta_worker(args):
    (prop, kind, seed, ncases, length, profile, mode, oracle_id) = args
    real = kind.split("-", 1)[1]
    base_ops = gen_ops(real, seed, ncases, length, profile, blackbox=True)
    bases = split_cases(base_ops)
    variants = [meta_variant(c, seed + i) for i, c in enumerate(bases)]
    vtext = "\n".join("\n".join(v) for v in variants) + "\n"
    iv, e1 = run_impl(vtext)
    ib, e2 = run_impl(base_ops)
    mv, e3 = run_model(vtext)
    res = {"kind": kind, "seed": seed, "profile": profile, "ncases": ncases, "ierr": e1 or e2,
           "merr": e3, "disagree": [], "oracle_fail": [], "nontrivial": 0, "ops": 0, "hist": {},
           "sample": None, "known": []}
    if iv is None or ib is None or mv is None:
        res["fatal"] = e1 or e2 or e3
        res["ops_text"] = vtext
        return res
    cv, cb, cm = split_cases(iv), split_cases(ib), split_cases(mv)
    for idx, (v, b) in enumerate(zip(cv, cb)):
        res["ops"] += len(v) - 1
        extras = sum(1 for l in v if is_extra(l))
        if extras and re.search(r"get \d+ -> some", "\n".join(v)):
            res["nontrivial"] += 1
        for l in v[1:]:
            w = op_of(l).split(" ")[0]
            res["hist"][w] = res["hist"].get(w, 0) + 1
        d = meta_compare(v, b)
        if d is not None:
            if d9_signature(v):
                res["known"].append("D9")
            else:
                res["oracle_fail"].append({"case": idx, "verdict": "metamorphic", "ops": variants[idx]})
        m = cm[idx] if idx < len(cm) else []
        dm = first_diff(v, m, "full")
        if dm is not None:
            res["disagree"].append({"case": idx, "at": dm[0], "impl": dm[1][:400], "model": dm[2][:400],
                                    "ops": variants[idx]})
        if res["sample"] is None and extras:
            res["sample"] = [op_of(x) for x in v[:40]]
    return res


def conc_blocks(text):
    blocks, cur = [], None
    for l in text.splitlines():
        if l.startswith("prog "):
            if cur:
                blocks.append(cur)
            cur = [l]
        elif cur is not None:
            cur.append(l)
    if cur:
        blocks.append(cur)
    return blocks


def conc_judge_block(block, checks):
    """Judges one recorded real-thread program: acceptor of model R, quiescent counters, refill."""
    problems = []
    if "accept" in checks:
        rc, out, err = run(limited([DRIVER, "accept"]), inp="\n".join(block) + "\n", timeout=120)
        if " ok " not in out and not out.strip().endswith("ok") and "ok ops=" not in out:
            problems.append("history rejected by the acceptor of model R: " + out.strip()[:120])
    for l in block:
        if l.startswith("quiet ") and "quiet" in checks:
            f = dict(x.split("=") for x in l.split()[1:])
            if f["ec"] != f["resident"] or f["ws"] != f["weight"]:
                problems.append("quiescent counters differ from residents: " + l)
        if l.startswith("refill ") and "refill" in checks:
            _, a, b = l.split()
            if a != b:
                problems.append("refill after quiescence not fully retained: " + l)
    return problems


def conc_worker(args):
    (prop, kind, seed, ncases, length, profile, mode, oracle_id) = args
    checks = profile.split("+")
    res = {"kind": kind, "seed": seed, "profile": profile, "ncases": ncases, "ierr": None, "merr": None,
           "disagree": [], "oracle_fail": [], "nontrivial": 0, "ops": 0, "hist": {}, "sample": None}
    if kind == "iterw":
        try:
            rc, out, err = run(limited([HBIN, "iterw", str(seed), str(ncases)]), timeout=300)
        except subprocess.TimeoutExpired:
            res["oracle_fail"].append({"case": 0, "verdict": "hang", "ops": ["iterw hang"], "recorded": True})
            return res
        for l in out.splitlines():
            if l.startswith("iterw "):
                f = dict(x.split("=") for x in l.split()[1:])
                res["ops"] += int(f["iterations"])
                res["nontrivial"] += 1
                if f["bad"] != "0":
                    res["oracle_fail"].append({"case": int(f["round"]), "verdict": "iteration", "recorded": True,
                                               "ops": [x for x in out.splitlines() if x.startswith("iterw-bad")][:3] + [l]})
        res["sample"] = out.splitlines()[-2:]
        return res
    if kind == "hammer":
        # tight real-thread loops with an online oracle (harness/src/conc.rs, run_hammer): a completed
        # invalidate_all is never undone for a later get, completed inserts are never superseded
        # backwards, explicit sync() beside the writers' housekeeping neither panics nor leaves the
        # counters inexact.  Supporting search for a failing input, not a proof.
        try:
            rc, out, err = run(limited([HBIN, "hammer", str(seed), str(ncases)]), timeout=300)
        except subprocess.TimeoutExpired:
            res["oracle_fail"].append({"case": 0, "verdict": "hang", "ops": [f"mmharness hammer {seed} {ncases} did not finish"], "recorded": True})
            return res
        want = set(profile.split("+"))
        for l in out.splitlines():
            if l.startswith("hammer "):
                f = dict(x.split("=") for x in l.split()[1:] if "=" in x)
                if f["kind"] not in want:
                    continue
                res["ops"] += int(f["ops"])
                res["nontrivial"] += 1
                res["hist"]["hammer:" + f["kind"]] = res["hist"].get("hammer:" + f["kind"], 0) + 1
                if f["bad"] != "0":
                    res["oracle_fail"].append({"case": int(f["round"]), "verdict": "hammer " + f["kind"], "recorded": True,
                                               "ops": [f"# re-run: harness/target/debug/mmharness hammer {seed} {ncases}"]
                                                      + [x for x in out.splitlines() if x.startswith("hammer-bad") and f"round={f['round']} " in x][:4] + [l]})
        if rc != 0 and not res["oracle_fail"]:
            res["fatal"] = f"hammer run crashed rc={rc} {err[-300:]}"
        res["sample"] = out.splitlines()[-2:]
        return res
    if kind == "stall":
        # C09: a thread held inside the maintenance leaves; the writers that filled the channel
        # meanwhile must all finish (harness/src/conc.rs, run_stall)
        try:
            rc, out, err = run(limited([HBIN, "stall", str(seed), str(ncases)]), timeout=300)
        except subprocess.TimeoutExpired:
            res["oracle_fail"].append({"case": 0, "verdict": "hang", "ops": [f"mmharness stall {seed} {ncases} did not finish"], "recorded": True})
            return res
        def bad_rounds(text):
            return [l for l in text.splitlines() if l.startswith("stall ") and not l.endswith("bad=0")]
        if bad_rounds(out):
            # a verdict of "still blocked" needs two watchdog expiries: the same rounds are run again
            try:
                rc2, out2, err2 = run(limited([HBIN, "stall", str(seed), str(ncases)]), timeout=300)
            except subprocess.TimeoutExpired:
                out2 = out
            if not bad_rounds(out2):
                res["note"] = "a blocked round of the first run finished in the second run (not counted): " + bad_rounds(out)[0]
                out = out2
        for l in out.splitlines():
            if l.startswith("stall "):
                f = dict(x.split("=") for x in l.split()[1:] if "=" in x)
                res["ops"] += int(f["stalled_at"])
                if f["parked"] == "true" and f["finished_before_release"] == "0":
                    res["nontrivial"] += 1
                hk = "stall:parked" if f["parked"] == "true" else "stall:not-parked"
                res["hist"][hk] = res["hist"].get(hk, 0) + 1
                if f["bad"] != "0":
                    res["oracle_fail"].append({"case": int(f["round"]), "verdict": "hang", "recorded": True,
                                               "ops": [f"# re-run: harness/target/debug/mmharness stall {seed} {ncases}"]
                                                      + [x for x in out.splitlines() if x.startswith("stall-bad")][:3] + [l]})
        res["sample"] = out.splitlines()[-2:]
        return res
    if kind == "miri-conc":
        # real threads inside Miri: data-race detection, use of freed memory, deadlocks, under the
        # schedule Miri picks for this seed (supporting validation of the trusted memory-ordering
        # and DashMap/crossbeam assumptions; never a proof)
        env = {"MIRIFLAGS": f"-Zmiri-disable-isolation -Zmiri-disable-stacked-borrows -Zmiri-seed={seed % 4294967296}",
               "CARGO_NET_OFFLINE": "true", "CARGO_TARGET_DIR": os.path.join(HARNESS, "target", "miri")}
        cmdline = f"cd harness && MIRIFLAGS='{env['MIRIFLAGS']}' cargo +nightly miri run --offline -- conc {seed} {ncases}"
        try:
            rc, out, err = run(["cargo", "+nightly", "miri", "run", "--offline", "--", "conc", str(seed), str(ncases)],
                               cwd=HARNESS, timeout=2400, env=env)
        except subprocess.TimeoutExpired:
            res["note"] = "miri conc run did not finish (not counted)"
            return res
        bad = re.search(r"Undefined Behavior|Data race|data race|error: deadlock|memory leaked", out + err)
        if bad:
            text = out + err
            i = text.find(bad.group(0))
            res["oracle_fail"].append({"case": 0, "verdict": "miri: " + text[max(0, i - 100):i + 400].replace("\n", " "),
                                       "ops": [cmdline] + text[max(0, i - 300):i + 1500].splitlines(), "recorded": True})
            return res
        if rc != 0:
            res["note"] = "miri could not run this batch (not counted): " + (out + err)[-200:]
            return res
    else:
        try:
            rc, out, err = run(limited([HBIN, "conc", str(seed), str(ncases)]), timeout=300)
        except subprocess.TimeoutExpired:
            res["oracle_fail"].append({"case": 0, "verdict": "hang", "ops": [f"mmharness conc {seed} {ncases} did not finish"], "recorded": True})
            return res
    if rc != 0:
        res["fatal"] = f"conc run crashed rc={rc} {err[-300:]}"
        res["ops_text"] = out[-2000:]
        return res
    blocks = conc_blocks(out)
    # one acceptor call for the whole output, then per-block detail only on rejection
    rejected = set()
    if "accept" in checks:
        rc2, aout, aerr = run(limited([DRIVER, "accept"]), inp=out, timeout=300)
        for l in aout.splitlines():
            if "REJECT" in l:
                rejected.add(l.split()[1])
    for b in blocks:
        res["ops"] += sum(1 for l in b if l.startswith("t"))
        name = b[0].split()[1]
        threads = {l.split()[0] for l in b if l.startswith("t")}
        if len(threads) >= 2:
            res["nontrivial"] += 1
        probs = conc_judge_block(b, [c for c in checks if c != "accept"])
        if name in rejected:
            probs.append("history rejected by the acceptor of model R")
        if probs:
            res["oracle_fail"].append({"case": name, "verdict": "; ".join(probs)[:300], "ops": b, "recorded": True})
        if res["sample"] is None and len(threads) >= 2:
            res["sample"] = b[:14]
    return res


def run_miri(ops, timeout=2400):
    """Runs the harness on `ops` under Miri (supporting validation of the memory-safety and drop
    properties: use of freed memory, invalid pointer use and leaks in the *real* code paths,
    which a plain debug build can pass silently). Returns (ok, detail)."""
    env = {"MIRIFLAGS": "-Zmiri-disable-isolation -Zmiri-disable-stacked-borrows", "CARGO_NET_OFFLINE": "true",
           "CARGO_TARGET_DIR": os.path.join(HARNESS, "target", "miri")}
    try:
        rc, out, err = run(["cargo", "+nightly", "miri", "run", "--offline", "--", "run"], cwd=HARNESS,
                           inp=ops, timeout=timeout, env=env)
    except subprocess.TimeoutExpired:
        return None, "miri run did not finish"
    text = out + err
    bad = re.search(r"Undefined Behavior|memory leaked|error: deadlock", text)
    if bad:
        i = text.find(bad.group(0))
        return False, text[max(0, i - 200):i + 1200]
    if rc != 0:
        return None, "miri exited with " + str(rc) + ": " + text[-400:]
    return True, out


def miri_worker(args):
    (prop, kind, seed, ncases, length, profile, mode, oracle_id) = args
    kind = kind[len("miri-"):]
    ops = gen_ops(kind, seed, ncases, length, profile)
    res = {"kind": "miri-" + kind, "seed": seed, "profile": profile, "ncases": ncases, "ierr": None, "merr": None,
           "disagree": [], "oracle_fail": [], "nontrivial": ncases, "ops": len(ops.splitlines()), "hist": {},
           "sample": None}
    ok, detail = run_miri(ops)
    if ok is None:
        res["note"] = "miri could not run this batch (not counted): " + detail[:200]
        res["nontrivial"] = 0
    elif not ok:
        # find the case: run the cases one by one
        for idx, c in enumerate(split_cases(ops)):
            ok1, d1 = run_miri("\n".join(c) + "\n", timeout=900)
            if ok1 is False:
                res["oracle_fail"].append({"case": idx, "verdict": "miri: " + d1[:300], "ops": c, "recorded": True})
                break
        else:
            res["oracle_fail"].append({"case": 0, "verdict": "miri: " + detail[:300], "ops": ops.splitlines(),
                                       "recorded": True})
    return res


def worker(args):
    if args[1] == "miri-conc":
        return conc_worker(args)
    if args[1].startswith("miri-"):
        return miri_worker(args)
    if args[1].startswith("meta-"):
        return meta_worker(args)
    if args[1] in ("conc", "iterw", "stall", "hammer"):
        return conc_worker(args)
    (prop, kind, seed, ncases, length, profile, mode, oracle_id) = args
    ops = gen_ops(kind, seed, ncases, length, profile)
    impl, ierr = run_impl(ops)
    # kind=inject has no executable model (map steps are injected at callback points inside a
    # maintenance run, below the granularity of ConcM): the implementation trace is judged by the
    # oracles only
    model, merr = (impl, None) if kind == "inject" else run_model(ops)
    res = {"kind": kind, "seed": seed, "profile": profile, "ncases": ncases, "ierr": ierr,
           "merr": merr, "disagree": [], "oracle_fail": [], "nontrivial": 0, "ops": 0,
           "hist": {}, "sample": None}
    if impl is None and ierr == "hang":
        # isolate the hanging case(s): run each case alone under a short watchdog
        for idx, c in enumerate(split_cases(ops)):
            out, e = run_impl("\n".join(c) + "\n", timeout=8)
            if out is None:      # confirm with a longer watchdog: a loaded machine is not a hang
                out, e = run_impl("\n".join(c) + "\n", timeout=30)
            if out is None:
                res["oracle_fail"].append({"case": idx, "verdict": "hang", "ops": c})
                if len(res["oracle_fail"]) >= 2:
                    break
        res["hang"] = True
        if not res["oracle_fail"]:
            res["fatal"] = "implementation batch did not finish (no single case hangs alone)"
            res["ops_text"] = ops
        return res
    if impl is None or model is None:
        res["fatal"] = ierr or merr
        res["ops_text"] = ops
        return res
    ic, mc = split_cases(impl), split_cases(model)
    oc = split_cases(ops)
    verdicts = judge_all(oracle_id, ic, impl)
    hist = {}
    for idx, c in enumerate(ic):
        for l in c[1:]:
            w = op_of(l).split(" ")[0]
            hist[w] = hist.get(w, 0) + 1
        body = "\n".join(c)
        nontriv = (bool(re.search(r"prob=[^ ]*!| wq=[1-9]|get \d+ -> none|panic", body)) and
                   bool(re.search(r"get \d+ -> some", body))) or kind in ("sketch", "deque")
        res["nontrivial"] += 1 if nontriv else 0
        res["ops"] += len(c) - 1
        m = mc[idx] if idx < len(mc) else []
        d = first_diff(c, m, mode)
        if d is not None:
            res["disagree"].append({"case": idx, "at": d[0], "impl": d[1][:400], "model": d[2][:400],
                                    "ops": oc[idx] if idx < len(oc) else [op_of(x) for x in c]})
        v = verdicts.get(idx)
        if oracle_id and (v is None or v[0] not in ("ok", "SKIP")):
            res["oracle_fail"].append({"case": idx, "verdict": v[0] if v else "missing",
                                       "ops": oc[idx] if idx < len(oc) else [op_of(x) for x in c]})
        if res["sample"] is None and nontriv:
            res["sample"] = [op_of(x) for x in c[:40]]
    res["hist"] = hist
    if len(ic) != ncases:
        res["fatal"] = f"implementation produced {len(ic)} cases of {ncases} ({ierr})"
        res["ops_text"] = ops
    return res


def judge_case(prop, ops_lines, mode, oracle_id):
    """Runs one case; returns (oracle_ok, agrees, impl_trace, model_trace)."""
    ops = "\n".join(op_of(l) for l in ops_lines) + "\n"
    if any(is_extra(l) for l in ops_lines[1:]):
        ok, known, detail = meta_judge(ops_lines)
        impl, _ = run_impl(ops, timeout=20)
        model, _ = run_model(ops, timeout=60)
        ic, mc = split_cases(impl or ""), split_cases(model or "")
        agrees = len(ic) == len(mc) and all(first_diff(a, b, mode) is None for a, b in zip(ic, mc))
        return (ok or known), agrees, (impl or "") + "\n# " + detail, model or ""
    impl, ierr = run_impl(ops, timeout=8)
    model, merr = (impl, None) if " kind=inject " in ops.split("\n", 1)[0] + " " else run_model(ops, timeout=60)
    if impl is None:
        return False, False, "hang", model or ""
    ic = split_cases(impl)
    mc = split_cases(model or "")
    ok = True
    if oracle_id:
        v = judge_all(oracle_id, ic, impl)
        ok = len(v) == len(ic) and all(v[i][0] in ("ok", "SKIP") for i in range(len(ic)))
    if ierr:
        ok = False
    agrees = len(ic) == len(mc) and all(first_diff(a, b, mode) is None for a, b in zip(ic, mc))
    return ok, agrees, impl, model or ""


def write_replay(prop, tag, lines, header):
    os.makedirs(REPLAYS, exist_ok=True)
    path = os.path.join(REPLAYS, f"{prop}-{tag}.ops")
    with open(path, "w") as f:
        for h in header:
            f.write("# " + h + "\n")
        for l in lines:
            f.write(op_of(l) + "\n")
    return path


def main():
    ap = argparse.ArgumentParser()
    ap.add_argument("prop")
    ap.add_argument("--tier", default=os.environ.get("VERIF_TIER", "quick"))
    ap.add_argument("--replay")
    a = ap.parse_args()
    prop = a.prop
    tier = a.tier if a.tier in ("quick", "thorough") else "quick"
    seed = int(os.environ.get("VERIF_SEED", "1") or "1")
    cfg = PROPS[prop]
    t0 = time.time()
    mode = cfg.get("projection", "full")
    oracle_id = cfg.get("oracle")
    violations = []      # (replay_path, suffix)
    known_lines = []
    notes = []
    known = load_known()

    # ---- proof side (under the package lock: other checks may be running concurrently)
    _lk = lean_lock()
    _lk.__enter__()
    okc, consts = regenerate_constants()
    tie_broken = []
    if not okc:
        tie_broken.append(f"constant extraction: {consts}")
    else:
        # constants of the sketch that could not be re-extracted (the library keeps the last values)
        # concern only the properties that speak about the sketch
        for f in consts.get("untied", []):
            if prop in ("C08", "C12", "C13", "C14"):
                tie_broken.append(f"constant extraction: {', '.join(f['constants'])} no longer tied to the source: {f['why']}")
    logic_failures = regenerate_logic()
    groups = cfg.get("logic", [])
    for g, name, why in logic_failures:
        if g == "*" or g in groups:
            tie_broken.append(f"translator: {name} ({g}) could not be translated from the current source: {why}")
    modules = cfg["lean_modules"] + [f"MiniMoka.Lemmas.Agree.{g}" for g in groups]
    okb, errors, buildlog = lake_build(modules + ["mmdriver"])
    obligations = cfg["theorems"] + [t for g in groups for t in AGREE_THEOREMS[g]]
    discharged = []
    axioms = {}
    if okb:
        axioms, missing, bad, atext = axiom_audit(modules, obligations, prop)
        for t in obligations:
            if t in axioms and t not in bad:
                discharged.append(t)
        if missing:
            tie_broken.append("theorems not found: " + ", ".join(missing))
        if bad:
            tie_broken.append("non-standard axioms: " + json.dumps(bad))
        if tier == "thorough":
            okl, ltext = leanchecker(modules)
            notes.append("leanchecker on " + ", ".join(modules) + (": accepted" if okl else ": REJECTED " + ltext))
            if not okl:
                tie_broken.append("leanchecker rejected a compiled property module: " + ltext)
    else:
        tie_broken.append("lake build failed: " + "; ".join(errors[:5]))
    banned = grep_banned()
    if banned:
        tie_broken.append("banned constructs: " + "; ".join(banned[:5]))

    # ---- implementation side
    okh, hlog, phase_ok = build_harness()
    _lk.__exit__()
    if not okh:
        tie_broken.append("harness build failed against /repo (hooks or API changed): " + hlog[-400:])
    elif not phase_ok:
        errs = [l for l in hlog.splitlines() if l.startswith("error")][:3]
        tie_broken.append("the phase-split hooks no longer build against /repo (components concs and inject "
                          "skipped, all others run): " + "; ".join(errs)[:400])

    if a.replay:
        return replay(prop, a.replay, mode, oracle_id)

    results = []
    corpus_runs = []
    total_cases = 0
    disagreements = []
    oracle_fails = []
    fatal = []
    if okh and os.path.exists(DRIVER):
        # corpus first
        for fn in sorted(os.listdir(CORPUS)) if os.path.isdir(CORPUS) else []:
            if not fn.endswith(".ops"):
                continue
            meta = fn.split(".")[0]
            if cfg.get("corpus") and not any(meta.startswith(p) for p in cfg["corpus"]):
                continue
            lines = [l for l in open(os.path.join(CORPUS, fn)).read().splitlines()
                     if l.strip() and not l.startswith("#")]
            ok, agrees, impl, model = judge_case(prop, lines, mode, oracle_id)
            corpus_runs.append({"file": fn, "oracle_ok": ok, "agrees": agrees})
            if not ok:
                oracle_fails.append({"case": fn, "ops": lines, "verdict": "FAIL", "src": "corpus"})
            elif not agrees:
                disagreements.append({"case": fn, "ops": lines, "src": "corpus", "at": -1,
                                      "impl": "", "model": ""})
        jobs = []
        mult = cfg.get("thorough_mult", 500) if tier == "thorough" else cfg.get("quick_mult", 3)
        comps = list(cfg["components"]) + (list(cfg.get("thorough_components", [])) if tier == "thorough" else [])
        if not phase_ok:
            comps = [c for c in comps if c[0] not in ("concs", "inject")]
        for ci, comp in enumerate(comps):
            kind, profiles, ncases, length = comp
            for pi, prof in enumerate(profiles):
                n = ncases if kind.startswith("miri-") else ncases * mult
                per = max(1, min(n, 150))
                for b in range((n + per - 1) // per):
                    jobs.append((prop, kind, seed * 7919 + ci * 101 + pi * 13 + b * 1009,
                                 min(per, n - b * per), length, prof, mode, oracle_id))
        with cf.ProcessPoolExecutor(max_workers=min(16, max(1, len(jobs)))) as ex:
            for r in ex.map(worker, jobs):
                results.append(r)
        for r in results:
            total_cases += r["ncases"]
            for d in r["disagree"]:
                d["src"] = f'{r["kind"]}/{r["profile"]}/seed{r["seed"]}'
                disagreements.append(d)
            for f in r["oracle_fail"]:
                f["src"] = f'{r["kind"]}/{r["profile"]}/seed{r["seed"]}'
                oracle_fails.append(f)
            if r.get("fatal"):
                fatal.append(r)
            for kf in r.get("known", []):
                for k0 in known:
                    if k0.get("id") == kf and k0.get("status") == "open" and k0.get("property") == prop:
                        line = f"KNOWN-FINDING: property={prop} {k0['id']} {k0['description']}"
                        if line not in known_lines:
                            known_lines.append(line)

    # ---- source audit
    oka, aproblems = source_audit(cfg.get("audit_kinds", []))
    if not oka:
        tie_broken.append("source audit: " + "; ".join(aproblems[:4]))

    # ---- classify
    def minimize(ops_lines, pred):
        try:
            return shrink(ops_lines, pred)
        except Exception as e:  # shrinking is best effort
            notes.append(f"shrink failed: {e}")
            return ops_lines

    reported = set()
    os.makedirs(REPLAYS, exist_ok=True)
    for fn in os.listdir(REPLAYS):
        if fn.startswith(prop + "-"):
            os.remove(os.path.join(REPLAYS, fn))
    unreproduced = 0
    for f in oracle_fails[:40]:
        if len(violations) >= 2:
            break
        lines = f["ops"]
        if not f.get("recorded") and f.get("src") != "corpus":
            # single-thread components are deterministic: a failure that does not reproduce when the
            # case is run again on its own was an artefact of the run (a driver or harness binary
            # replaced underneath it, a resource limit), not a property of the code
            if judge_case(prop, lines, mode, oracle_id)[0]:
                unreproduced += 1
                continue
        if f.get("recorded"):
            sig = hashlib.sha1("\n".join(lines).encode()).hexdigest()[:10]
            os.makedirs(REPLAYS, exist_ok=True)
            path = os.path.join(REPLAYS, f"{prop}-{sig}.hist")
            with open(path, "w") as fh:
                fh.write("# recorded real-thread history (" + f.get("verdict", "") + ")\n")
                fh.write("# source: " + f["src"] + "; re-judge with: lean/MiniMoka/.lake/build/bin/mmdriver accept < this file\n")
                fh.write("\n".join(lines) + "\n")
            violations.append((path, ""))
            continue
        if f.get("verdict") == "hang":
            # each trial costs a watchdog period: shrink with a small budget
            small = shrink(lines, lambda ls: not judge_case(prop, ls, mode, oracle_id)[0], budget=25)
        else:
            small = minimize(lines, lambda ls: not judge_case(prop, ls, mode, oracle_id)[0])
        k = match_known(prop, small, known)
        sig = hashlib.sha1("\n".join(op_of(x) for x in small).encode()).hexdigest()[:10]
        if k:
            line = f"KNOWN-FINDING: property={prop} {k['id']} {k['description']}"
            if line not in known_lines:
                known_lines.append(line)
            continue
        if sig in reported:
            continue
        reported.add(sig)
        path = write_replay(prop, sig, small, [f"oracle {oracle_id} fails on the implementation", f"source: {f['src']}",
                                               f"replay: tools/check.py {prop} --replay <this file>"])
        violations.append((path, ""))
    # disagreements and failed batches that do not reproduce on their own are artefacts of the run
    if disagreements and not violations:
        kept = []
        for d in disagreements:
            if len(kept) >= 3:
                kept.append(d)
                continue
            if d.get("src") == "corpus" or not judge_case(prop, d["ops"], mode, oracle_id)[1]:
                kept.append(d)
        if len(kept) < len(disagreements):
            notes.append(f"{len(disagreements) - len(kept)} model/implementation disagreement(s) of the batch runs "
                         "did not reproduce when the case was run again on its own and were discarded")
        disagreements = kept
    if not violations and (disagreements or fatal or tie_broken):
        # the tie is broken: search harder for a failing input (bigger budget, targeted profiles)
        found = None
        if okh and os.path.exists(DRIVER) and oracle_id:
            search_jobs = []
            for ci, comp in enumerate(cfg["components"]):
                kind, profiles, ncases, length = comp
                if not phase_ok and kind in ("concs", "inject"):
                    continue
                for pi, prof in enumerate(profiles):
                    for b in range(6):
                        search_jobs.append((prop, kind, (seed + 17) * 104729 + ci * 11 + pi * 7 + b * 3331,
                                            120, length, prof, mode, oracle_id))
            with cf.ProcessPoolExecutor(max_workers=16) as ex:
                for r in ex.map(worker, search_jobs):
                    total_cases += r["ncases"]
                    for f in r["oracle_fail"]:
                        small = minimize(f["ops"], lambda ls: not judge_case(prop, ls, mode, oracle_id)[0])
                        if match_known(prop, small, known):
                            continue
                        found = small
                        break
                    if found:
                        break
        if found:
            sig = hashlib.sha1("\n".join(op_of(x) for x in found).encode()).hexdigest()[:10]
            path = write_replay(prop, sig, found, [f"oracle {oracle_id} fails on the implementation (found by the search after the tie broke)",
                                                   f"replay: tools/check.py {prop} --replay <this file>"])
            violations.append((path, ""))
        else:
            header = ["NO FAILING INPUT FOUND. The property is no longer shown to hold because:"]
            header += tie_broken
            body = ["cfg kind=unsync"]
            if disagreements:
                d = disagreements[0]
                small = minimize(d["ops"], lambda ls: not judge_case(prop, ls, mode, oracle_id)[1])
                header.append(f"correspondence component {d['src']} (projection {mode}) disagrees; minimized history below")
                header.append(f"first difference: impl: {d.get('impl','')[:200]}")
                header.append(f"                 model: {d.get('model','')[:200]}")
                body = small
            elif fatal:
                header.append(f"implementation run failed: {fatal[0].get('fatal')}")
                body = (fatal[0].get("ops_text") or "").splitlines()[:400] or body
            path = write_replay(prop, f"tie-{seed}", body, header)
            violations.append((path, " no-failing-input-found"))

    if unreproduced:
        notes.append(f"{unreproduced} oracle failure(s) of the batch runs did not reproduce when the case was run "
                     "again on its own and were discarded")
    # ---- evidence
    hist = {}
    nontrivial = 0
    nops = 0
    samples = []
    for r in results:
        nontrivial += r["nontrivial"]
        nops += r["ops"]
        for k2, v in r["hist"].items():
            hist[k2] = hist.get(k2, 0) + v
        if r["sample"] and len(samples) < 3:
            samples.append({"component": f'{r["kind"]}/{r["profile"]}', "ops": r["sample"]})
    per_component = {}
    for r in results:
        key = f'{r["kind"]}/{r["profile"]}'
        pc = per_component.setdefault(key, {"cases": 0, "ops": 0, "nontrivial": 0, "disagreements": 0,
                                            "oracle_failures": 0, "notes": []})
        pc["cases"] += r["ncases"]
        pc["ops"] += r["ops"]
        pc["nontrivial"] += r["nontrivial"]
        pc["disagreements"] += len(r["disagree"])
        pc["oracle_failures"] += len(r["oracle_fail"])
        if r.get("note") and r["note"] not in pc["notes"] and len(pc["notes"]) < 3:
            pc["notes"].append(r["note"])
    wall = time.time() - t0
    ev = {
        "property_id": prop, "tier": tier, "seed": seed, "level": cfg.get("level", "proof"),
        "coverage": {
            "obligations": len(obligations), "discharged": len(discharged),
            "checker_cmd": f"cd {LEAN} && lake build {' '.join(modules)} && lake env lean <#print axioms of each obligation>",
            "trusted_base": ["Lean 4.33 kernel", "axioms: propext, Classical.choice, Quot.sound (per theorem: see axioms)",
                             "hand-written Lean model tied to /repo by regenerated constants, differential correspondence and source-site audit",
                             "Rust harness + mmdriver (Lean compiler) for the correspondence"],
            "theorems": [{"name": t, "status": "proved" if t in discharged else "NOT CHECKED",
                          "axioms": axioms.get(t)} for t in obligations],
            "theorem_notes": cfg.get("theorem_notes", ""),
            "evaluations": total_cases, "distinct_nontrivial": nontrivial,
            "rule": "generated histories (profiles of DESIGN §3.6) run on the implementation and the model; a case is non-trivial when it contains both a hit and at least one of: miss/eviction, queued operation, non-current node, panic; distinct by seed",
            "samples": samples or [{"note": "no generated case (build failed?)"}],
            "traces_validated_against_impl": total_cases - len(disagreements),
            "operations_executed": nops, "op_histogram": hist,
            "projection": mode, "oracle": oracle_id, "components": per_component,
            "corpus": corpus_runs,
            "disagreements": len(disagreements), "oracle_failures_on_impl": len(oracle_fails),
            "tie_broken": tie_broken, "source_audit_ok": oka, "constants": consts if okc else None,
            "translated_logic": {"groups": groups, "agreement_theorems": [t for g in groups for t in AGREE_THEOREMS[g]],
                                 "untranslatable_sites": [list(f) for f in logic_failures]},
            "known_findings_printed": known_lines, "notes": notes,
        },
        "assumptions": cfg.get("assumptions", []),
        "wall_s": round(wall, 2), "violations": len(violations),
    }
    os.makedirs(EVID, exist_ok=True)
    with open(os.path.join(EVID, f"{prop}.json"), "w") as f:
        json.dump(ev, f, indent=1)
    for l in known_lines:
        print(l)
    for path, suffix in violations:
        print(f"VIOLATION property={prop} replay={path}{suffix}")
    log(f"[{prop}] {tier}: {total_cases} cases, {nops} ops, {len(discharged)}/{len(obligations)} obligations, "
        f"{len(disagreements)} disagreements, {len(oracle_fails)} oracle failures, {wall:.1f}s")
    return 1 if violations else 0


def replay(prop, path, mode, oracle_id):
    lines = [l for l in open(path).read().splitlines() if l.strip() and not l.startswith("#")]
    ok, agrees, impl, model = judge_case(prop, lines, mode, oracle_id)
    il, ml = (impl or "").splitlines(), (model or "").splitlines()
    for i in range(max(len(il), len(ml))):
        x = il[i] if i < len(il) else "<missing>"
        y = ml[i] if i < len(ml) else "<missing>"
        mark = "  " if x == y else "!="
        print(f"{mark} impl : {x}")
        if x != y:
            print(f"{mark} model: {y}")
    print(f"oracle {oracle_id}: {'ok' if ok else 'FAIL'}; model agrees: {agrees}")
    if not ok:
        print(f"VIOLATION property={prop} replay={path}")
        return 1
    if not agrees:
        print(f"VIOLATION property={prop} replay={path} no-failing-input-found")
        return 1
    return 0


if __name__ == "__main__":
    sys.exit(main())
