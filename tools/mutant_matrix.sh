#!/bin/bash
# Applies every seeded change to /repo's working tree in turn, runs the quick check of its
# property, records the verdict, reverts. Writes /verif/seeded/MATRIX.md.
cd /verif
out=/verif/seeded/MATRIX.md
echo "| seeded change | check | exit | first VIOLATION line | summary line |" > $out
echo "|---|---|---|---|---|" >> $out
for d in /verif/seeded/C*/; do
  id=$(basename $d)
  [ -n "${1:-}" ] && [ "$1" != "$id" ] && continue
  git -C /repo status --short | grep -q . && { echo "/repo not clean"; exit 2; }
  git -C /repo apply $d/patch.diff || { echo "| $id | - | patch does not apply | | |" >> $out; continue; }
  prop=${id:0:3}
  log=$(timeout 2400 python3 tools/check.py $prop --tier quick 2>&1); rc=$?
  v=$(echo "$log" | grep -m1 VIOLATION | sed 's/|/ /g')
  s=$(echo "$log" | grep -m1 "^\[$prop\]" | sed 's/|/ /g')
  echo "| $id | check.py $prop --tier quick | $rc | $v | $s |" >> $out
  git -C /repo checkout -- .
done
git -C /repo status --short
cat $out
