#!/usr/bin/env python3
"""Regenerates lean/MiniMoka/MiniMoka/Gen/Constants.lean from the Rust sources.

Every constant is located by an anchored regular expression on the item that defines it.
Failure to find one is a broken tie (exit 2, message on stderr). The file is rewritten only
when its content changes, so that an unchanged tree does not trigger a Lean rebuild.
"""
import re, sys, os

REPO = os.environ.get("VERIF_REPO", "/repo")
OUT = os.path.join(os.path.dirname(os.path.abspath(__file__)), "..", "lean", "MiniMoka", "MiniMoka", "Gen", "Constants.lean")


class Broken(Exception):
    pass


def read(rel):
    with open(os.path.join(REPO, rel)) as f:
        return f.read()


def eval_const(expr, env):
    expr = expr.strip().replace("_", "")
    # tiny evaluator: integers, names, + * ( )
    tokens = re.findall(r"0x[0-9a-fA-F]+|\d+|[A-Za-z][A-Za-z0-9]*|[()+*]", expr.replace("_", ""))
    py = []
    for t in tokens:
        if re.fullmatch(r"[A-Za-z][A-Za-z0-9]*", t) and not t.startswith("0x"):
            # re-insert underscores: look up by squeezed name
            hits = [k for k in env if k.replace("_", "") == t]
            if not hits:
                raise Broken(f"unknown name {t} in constant expression {expr!r}")
            py.append(str(env[hits[0]]))
        else:
            py.append(t)
    return int(eval(" ".join(py), {"__builtins__": {}}))


def find(pattern, text, what):
    m = re.search(pattern, text, re.M | re.S)
    if not m:
        raise Broken(f"cannot locate {what}")
    return m


def num_or_const(tok, text, what):
    """A literal, or the name of a `const`/`static` item of the same file holding one."""
    tok = tok.strip()
    if re.fullmatch(r"[\d_]+", tok):
        return int(tok.replace("_", ""))
    if re.fullmatch(r"0x[0-9a-fA-F_]+", tok):
        return int(tok.replace("_", ""), 16)
    m = re.search(r"\b(?:const|static)\s+" + re.escape(tok) + r"\s*:\s*\w+\s*=\s*([^;]+);", text)
    if not m:
        raise Broken(f"cannot resolve {tok} in {what}")
    return num_or_const(m.group(1).split(" as ")[0], text, what)


FAILED = []


def attempt(c, names, f):
    """Extracts one group of constants; on failure keeps the values of the last generated file
    (so that the library still builds) and records which constants are no longer tied."""
    try:
        f()
    except Broken as e:
        FAILED.append({"constants": names, "why": str(e)})


def extract():
    c = {}
    consts = read("src/common/concurrent/constants.rs")
    env = {}
    for name in ["MAX_SYNC_REPEATS", "PERIODICAL_SYNC_INTERVAL_MILLIS", "READ_LOG_FLUSH_POINT",
                 "READ_LOG_SIZE", "WRITE_LOG_FLUSH_POINT", "WRITE_LOG_SIZE"]:
        m = find(r"^pub\(crate\) const " + name + r": (?:usize|u64) = ([^;]+);", consts, name)
        env[name] = eval_const(m.group(1), env)
        c[name] = env[name]
    un = read("src/unsync/cache.rs")
    c["UNSYNC_EVICTION_BATCH_SIZE"] = int(find(r"^const EVICTION_BATCH_SIZE: usize = (\d+);", un, "unsync EVICTION_BATCH_SIZE").group(1))
    bc = read("src/sync/base_cache.rs")
    c["SYNC_EVICTION_BATCH_SIZE"] = int(find(r"mod batch_size \{\s*pub\(crate\) const EVICTION_BATCH_SIZE: usize = (\d+);", bc, "sync EVICTION_BATCH_SIZE").group(1))
    c["MAX_CONSECUTIVE_RETRIES"] = int(find(r"const MAX_CONSECUTIVE_RETRIES: usize = (\d+);", bc, "MAX_CONSECUTIVE_RETRIES").group(1))
    fs = read("src/common/frequency_sketch.rs")
    m = find(r"static SEED: \[u64; 4\] = \[\s*(0x[0-9a-f_]+),\s*(0x[0-9a-f_]+),\s*(0x[0-9a-f_]+),\s*(0x[0-9a-f_]+),?\s*\];", fs, "SEED")
    for i in range(4):
        c[f"SEED{i}"] = int(m.group(i + 1).replace("_", ""), 16)
    c["RESET_MASK"] = int(find(r"static RESET_MASK: u64 = (0x[0-9a-f_]+);", fs, "RESET_MASK").group(1).replace("_", ""), 16)
    c["ONE_MASK"] = int(find(r"static ONE_MASK: u64 = (0x[0-9a-f_]+);", fs, "ONE_MASK").group(1).replace("_", ""), 16)
    # ensure_capacity: cap.min(2u32.pow(30)) on 64-bit, saturating_mul(10), `10` for cap == 0
    def table_pow():
        c["SKETCH_MAX_TABLE_POW"] = num_or_const(find(r"\} else \{[^}]*?cap\.min\(2u32\.pow\((\w+)\)\)[^}]*\};\s*let table_size", fs, "ensure_capacity 64-bit clamp").group(1), fs, "ensure_capacity")
    attempt(c, ["SKETCH_MAX_TABLE_POW"], table_pow)
    def sample():
        m = find(r"self\.sample_size = if cap == 0 \{\s*(\w+)\s*\} else \{\s*maximum\s*\.saturating_mul\((\w+)\)\s*\.min\(i32::MAX as u32\)\s*\};", fs, "sample_size expression")
        c["SKETCH_ZERO_CAP_SAMPLE"] = num_or_const(m.group(1), fs, "sample_size")
        c["SKETCH_SAMPLE_FACTOR"] = num_or_const(m.group(2), fs, "sample_size")
    attempt(c, ["SKETCH_ZERO_CAP_SAMPLE", "SKETCH_SAMPLE_FACTOR"], sample)
    cm = read("src/common.rs")
    c["SKETCH_MIN_CAPACITY"] = int(find(r"max_capacity\.try_into\(\)\.unwrap_or\(u32::MAX\)\.max\((\d+)\)", cm, "sketch_capacity clamp").group(1))
    bu = read("src/common/builder_utils.rs")
    m = find(r"const YEAR_SECONDS: u64 = ([^;]+);", bu, "YEAR_SECONDS")
    c["YEAR_SECONDS"] = eval_const(m.group(1), {})
    m = find(r"Duration::from_secs\(([\d_]+) \* YEAR_SECONDS\)", bu, "max duration")
    c["MAX_DURATION_YEARS"] = int(m.group(1).replace("_", ""))
    return c


ORDER = ["UNSYNC_EVICTION_BATCH_SIZE", "SYNC_EVICTION_BATCH_SIZE", "MAX_SYNC_REPEATS",
         "PERIODICAL_SYNC_INTERVAL_MILLIS", "READ_LOG_FLUSH_POINT", "READ_LOG_SIZE",
         "WRITE_LOG_FLUSH_POINT", "WRITE_LOG_SIZE", "MAX_CONSECUTIVE_RETRIES", "SEED0", "SEED1",
         "SEED2", "SEED3", "RESET_MASK", "ONE_MASK", "SKETCH_MIN_CAPACITY", "SKETCH_MAX_TABLE_POW",
         "SKETCH_SAMPLE_FACTOR", "SKETCH_ZERO_CAP_SAMPLE", "YEAR_SECONDS", "MAX_DURATION_YEARS"]
HEX = {"SEED0", "SEED1", "SEED2", "SEED3", "RESET_MASK", "ONE_MASK"}


def render(c):
    lines = ["/-",
             "  GENERATED by /verif/tools/extract_consts.py from the Rust sources on every run.",
             "  Do not edit by hand.",
             "-/",
             "namespace MiniMoka",
             "namespace Gen",
             ""]
    for k in ORDER:
        v = c[k]
        lines.append(f"def {k} : Nat := {hex(v) if k in HEX else v}")
    lines += ["",
              "/-- A clock step (in nanoseconds) that surely leaves the periodic-sync interval: used by the",
              "examples of the property files instead of a literal, so that a retuning of the interval",
              "re-evaluates them. -/",
              "def PAST_SYNC_INTERVAL_NS : Nat := PERIODICAL_SYNC_INTERVAL_MILLIS * 1000000 + 100000000",
              "", "end Gen", "end MiniMoka", ""]
    return "\n".join(lines)


def main():
    try:
        c = extract()
    except Broken as e:
        print(f"extract_consts: BROKEN TIE: {e}", file=sys.stderr)
        return 2
    out = os.path.normpath(OUT)
    old = open(out).read() if os.path.exists(out) else None
    for f in FAILED:
        for name in f["constants"]:
            m = re.search(r"^def " + name + r" : Nat := (\S+)$", old or "", re.M)
            if name not in c:
                if not m:
                    print(f"extract_consts: BROKEN TIE: {f['why']}", file=sys.stderr)
                    return 2
                c[name] = int(m.group(1), 0)
    text = render(c)
    changed = old != text
    if changed:
        with open(out, "w") as f:
            f.write(text)
    import json
    print(json.dumps({"changed": changed, "constants": c, "untied": FAILED}))
    return 0


if __name__ == "__main__":
    sys.exit(main())
