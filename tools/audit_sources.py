#!/usr/bin/env python3
"""Source-site audit (DESIGN.md §3.4c).

Inventories, from the current sources, every site of the kinds the models were written
against (map mutation, channel operation, panic/unsafe, timestamp/flag/weight write, counter
arithmetic, lock acquisition) as (file, enclosing fn, kind) -> count, and compares it with
tools/site_inventory.json.  A new, vanished or moved site means the model no longer covers
the code for the properties that depend on that kind.

  audit_sources.py [--write] [kind ...]     prints {"ok":bool,"problems":[...]}
"""
import json, os, re, sys

REPO = os.environ.get("VERIF_REPO", "/repo")
HERE = os.path.dirname(os.path.abspath(__file__))
INV = os.path.join(HERE, "site_inventory.json")

FILES = ["src/unsync/cache.rs", "src/unsync/deques.rs", "src/unsync.rs", "src/unsync/iter.rs",
         "src/unsync/builder.rs", "src/sync/cache.rs", "src/sync/base_cache.rs", "src/sync/iter.rs",
         "src/sync/mapref.rs", "src/sync/builder.rs", "src/common/deque.rs", "src/common/frequency_sketch.rs",
         "src/common/concurrent/deques.rs", "src/common/concurrent/housekeeper.rs",
         "src/common/concurrent/entry_info.rs", "src/common/concurrent/atomic_time.rs",
         "src/common/concurrent.rs", "src/common.rs", "src/common/builder_utils.rs", "src/policy.rs",
         "src/common/time.rs", "src/common/time/clock.rs"]

KINDS = {
    "map_write": r"\bcache\s*\.\s*(insert|entry|remove|remove_if|clear|retain|get_mut)\s*\(",
    "map_read": r"\bcache\s*\.\s*(get|iter|contains_key)\s*\(",
    "channel": r"\.\s*(try_send|try_recv|send|recv)\s*\(|_ch\s*\.\s*len\s*\(\)|\bch\s*\.\s*len\s*\(\)",
    "panic": r"\bpanic!|\bunreachable!|\.expect\(|\.unwrap\(\)|\bassert!|\bassert_eq!|\bdebug_assert",
    "unsafe": r"\bunsafe\b",
    "time_write": r"\bset_last_accessed\s*\(|\bset_last_modified\s*\(|\bset_valid_after\s*\(|\bset_instant\s*\(|\badvance_to\s*\(",
    "flag_write": r"\bset_dirty\s*\(|\bset_admitted\s*\(|\bset_policy_weight\s*\(|\bunset_q_nodes\s*\(|\bset_access_order_q_node\s*\(|\bset_write_order_q_node\s*\(|\btake_access_order_q_node\s*\(|\btake_write_order_q_node\s*\(",
    "counter": r"\bentry_count\s*[-+]=|\bentry_count\s*=[^=]|\bweighted_size\s*=[^=]|saturating_(add|sub)(_to|_from)?(_total_weight)?\s*\(|\.store\s*\(",
    "lock": r"\.lock\(\)|\.read\(\)|\.write\(\)|compare_exchange\s*\(",
    "deque_op": r"\.\s*(push_back|pop_front|move_to_back|move_front_to_back|unlink|unlink_and_drop|push_back_ao|push_back_wo|move_to_back_ao|move_to_back_wo|unlink_ao|unlink_wo|unlink_ao_from_deque|move_to_back_ao_in_deque|move_to_back_wo_in_deque|unlink_node_ao|unlink_node_wo)\s*\(|Deques::\w+\s*\(",
    "sketch_op": r"\.\s*(increment|frequency|ensure_capacity|reset)\s*\(",
    # shape of the iterators: adapters that skip, cut or re-position an iteration, and the calls
    # that hand out the underlying map iterator (ConcSI models one pass over every shard)
    "iter_shape": r"\.\s*(skip|take|step_by|skip_while|take_while|nth|rev|filter|filter_map|peekable|chain|collect|cloned)\s*\(|\.\s*iter\s*\(\)|\bnext\s*\(",
    "time_check": r"\bis_expired_entry(_ao|_wo)?\s*\(|checked_add\s*\(|<=\s*now|<\s*\*va",
}


# Ordered synchronisation events per function (kind "lock_order"): the lock-event table of the
# abstract lock model (ConcL.lean) is a hand transcription of these sequences, so a reordering,
# an added acquisition or a lost release changes the recorded string even if the counts stay.
ORDER_RX = re.compile(
    r"\.(lock)\(\)|\.(read)\(\)|\.(write)\(\)|(compare_exchange)\s*\(|\.(try_send|try_recv|send|recv)\s*\(|"
    r"(is_sync_running)\s*\.\s*store|\b(drop)\s*\(|\bcache\s*\.\s*(get|insert|entry|remove|remove_if|iter|contains_key)\s*\(|"
    r"\.(try_sync|sync|apply_reads_writes_if_needed|record_read_op|schedule_write_op)\s*\(")


# Ordered fingerprint of the operations that matter to the concurrent cache's maintenance (kind
# "op_order", files of the concurrent cache only): map accesses, the dirty/admitted flags, the
# accounted weight, timestamps, the user's weigher, counter updates and deque operations, in
# source order per function. The models transcribe these functions statement by statement and
# treat each as atomic at a chosen granularity; under threads the ORDER of, say, "look the entry
# up" and "clear the dirty flag" is behaviour, although no single-threaded run can tell.
ITER_FILES = ("src/sync/iter.rs", "src/unsync/iter.rs", "src/sync/mapref.rs")
OP_ORDER_FILES = ("src/sync/base_cache.rs", "src/sync/cache.rs", "src/common/concurrent/housekeeper.rs")
OP_ORDER_RX = re.compile(
    r"\.(get|get_mut|insert|entry|remove|remove_if|and_modify|or_insert_with)\s*\(|"
    r"\b(set_dirty|is_dirty|set_admitted|is_admitted|set_policy_weight|policy_weight|"
    r"set_last_accessed|set_last_modified|last_accessed|last_modified|weigh|"
    r"saturating_add|saturating_sub|push_back_ao|push_back_wo|move_to_back_ao|move_to_back_wo|"
    r"unlink_ao|unlink_wo|handle_remove|handle_remove_with_deques|handle_admit|try_send|try_recv|"
    r"compare_exchange|store|load)\s*\(")


def strip_guarded(text):
    """Removes items under #[cfg(test)] / #[cfg(mini_moka_verif)] (brace matched) and comments."""
    out, i, n = [], 0, len(text)
    pat = re.compile(r"#\[cfg\((test|mini_moka_verif|mini_moka_verif_phase|all\(mini_moka_verif[^\]]*)\)\]")
    while i < n:
        m = pat.search(text, i)
        if not m:
            out.append(text[i:])
            break
        out.append(text[i:m.start()])
        j = m.end()
        # skip to the first '{' or ';' of the guarded item
        k = j
        while k < n and text[k] not in "{;":
            k += 1
        if k < n and text[k] == "{":
            depth = 0
            while k < n:
                if text[k] == "{":
                    depth += 1
                elif text[k] == "}":
                    depth -= 1
                    if depth == 0:
                        k += 1
                        break
                k += 1
        else:
            k += 1
        i = k
    text = "".join(out)
    text = re.sub(r"//[^\n]*", "", text)
    text = re.sub(r'"(\\.|[^"\\])*"', '""', text)
    return text


def inventory():
    inv = {}
    for rel in FILES:
        path = os.path.join(REPO, rel)
        if not os.path.exists(path):
            inv[f"{rel}|<file>|missing"] = 1
            continue
        text = strip_guarded(open(path).read())
        fn = "<top>"
        for line in text.splitlines():
            m = re.search(r"\bfn\s+([A-Za-z_][A-Za-z0-9_]*)", line)
            if m:
                fn = m.group(1)
            for kind, rx in KINDS.items():
                if kind == "iter_shape" and not (rel in ITER_FILES or fn in ("iter", "into_iter")):
                    continue
                c = len(re.findall(rx, line))
                if c:
                    key = f"{rel}|{fn}|{kind}"
                    inv[key] = inv.get(key, 0) + c
            for m in ORDER_RX.finditer(line):
                tok = next(g for g in m.groups() if g)
                key = f"{rel}|{fn}|lock_order"
                inv[key] = (inv[key] + ">" if key in inv else "") + tok
            if rel in OP_ORDER_FILES:
                for m in OP_ORDER_RX.finditer(line):
                    tok = next(g for g in m.groups() if g)
                    key = f"{rel}|{fn}|op_order"
                    inv[key] = (inv[key] + ">" if key in inv else "") + tok
    return inv


def main():
    args = sys.argv[1:]
    write = "--write" in args
    kinds = [a for a in args if not a.startswith("--")]
    inv = inventory()
    if write:
        with open(INV, "w") as f:
            json.dump(inv, f, indent=0, sort_keys=True)
        print(json.dumps({"ok": True, "problems": [], "sites": len(inv)}))
        return 0
    base = json.load(open(INV)) if os.path.exists(INV) else {}
    problems = []
    for key in sorted(set(inv) | set(base)):
        kind = key.split("|")[2]
        if kinds and kind not in kinds and kind != "missing":
            continue
        a, b = base.get(key, 0), inv.get(key, 0)
        if a != b:
            what = "sequence" if kind in ("lock_order", "op_order") else "site(s)"
            problems.append(f"{key}: model was written against {a} {what}, source now has {b}")
    print(json.dumps({"ok": not problems, "problems": problems, "sites": len(inv)}))
    return 0


if __name__ == "__main__":
    sys.exit(main())
