"""Per-property configuration of the checks (see DESIGN.md §5)."""

ALL = ["mixed", "burst", "synced", "boundary", "churn", "growth", "scan", "big"]
SMALL = ["mixed", "burst", "synced", "boundary", "churn", "growth", "scan"]

COMMON_ASSUME = [
    "Lean 4.33 kernel; axioms propext, Classical.choice, Quot.sound only",
    "hand-written model agrees with /repo outside the sampled histories and audited sites (not checked there)",
    "std HashMap / DashMap / crossbeam channels / Rc, Arc, TrioArc modelled as finite maps, FIFO lists and reference counts",
    "sketch table below 2^28 slots (documented limit of the u32 `count` in FrequencySketch::reset)",
]

PROPS = {
    "C10": {
        "lean_modules": ["MiniMoka.Props.C10", "MiniMoka.Props.C10Sync", "MiniMoka.Props.C10Order", "MiniMoka.Props.ConcS", "MiniMoka.Props.ConcM", "MiniMoka.Props.ConcF", "MiniMoka.Props.ConcB"],
        "theorems": ["MiniMoka.Props.ConcB_counted_once", "MiniMoka.Props.ConcB_flags_independent", "MiniMoka.Props.ConcB_counterexample_packed_racy",
                     "MiniMoka.Props.ConcB_packedAtomic_refines_separate", "MiniMoka.Props.ConcB_applyWrite_granularity",
                     "MiniMoka.Props.ConcF_C10_quiescent", "MiniMoka.Props.ConcF_racing_update_covered", "MiniMoka.Props.ConcF_counterexample_dirty_order",
                     "MiniMoka.Props.ConcM_C10_quiescent",
                     "MiniMoka.Props.ConcS_C10_quiescent", "MiniMoka.Props.ConcS_C10_after_maint", "MiniMoka.Props.ConcS_counterexample_D10",
                     "MiniMoka.Props.C10_unsync", "MiniMoka.Props.C10_sync",
                     "MiniMoka.Props.C10_sync_queue_order_independent", "MiniMoka.Props.C10_sync_counterexample_D10",
                     "MiniMoka.Props.C10_sync_every_quiescent_snapshot",
                     "MiniMoka.Props.C10_sync_counterexample_D7", "MiniMoka.Props.C10_sync_counterexample_D8",
                     "MiniMoka.Props.C10_unsync_counterexample_D1",
                     "MiniMoka.Props.C10_unsync_counterexample_D2",
                     "MiniMoka.Props.C10_unsync_counterexample_D3",
                     "MiniMoka.Props.C10_unsync_counterexample_D4"],
        "components": [("unsync", SMALL, 40, 50), ("unsync", ["big"], 6, 40),
                       ("sync", SMALL, 40, 50), ("sync", ["big"], 6, 40), ("unsync", ["batch"], 8, 30),
                       ("sync", ["batch"], 8, 30)],
        "projection": "counters",
        "oracle": "C10",
        "audit_kinds": ["map_write", "counter", "flag_write"],
        "corpus": ["C10", "D1", "D2", "D3", "D4", "D7", "D8", "D10"],
        "assumptions": COMMON_ASSUME,
        "level_text": "Unsync: proved for every configuration, hash function, weigher and history (theorem C10_unsync: every snapshot after any operation has entry_count = |map| and weighted_size = sum of weights; by the inductive invariant InvU over all operations). Sync driven by one thread: proved for every configuration and history, any placement of sync() and any queue state (C10_sync; stronger: C10_sync_every_quiescent_snapshot, at every snapshot with an empty write queue): entry_count = |map|, weighted_size = sum of stored weights = sum of weigher(k, v) over the residents; by the invariant that every list node's info is the map's current one or awaits a queued Remove, every unadmitted map entry awaits a queued Upsert, and weighted_size is the sum of the accounted weights. The repaired defects D7b and D8 are machine-checked counterexamples under their switches. Towards concurrent schedules: the result of a maintenance run does not depend on the order of the queued write ops (C10_sync_queue_order_independent: for ANY permutation of the write queue of an invariant-satisfying state the counters come out exact; with the D10 switch on, the inverted queue that two racing threads can produce gives a wrong weighted_size: C10_sync_counterexample_D10). For all interleavings of any number of threads at the granularity of ConcS.lean the counters are exact whenever no thread holds a write and the write queue is empty, in particular right after a maintenance run (ConcS_C10_quiescent, ConcS_C10_after_maint; D10 as a two-thread interleaving: ConcS_counterexample_D10), and likewise for the finer models in which other threads' steps interleave inside a maintenance run (ConcM_C10_quiescent) and even between the individual map accesses of one queued upsert (ConcF_C10_quiescent; ConcF_racing_update_covered is the reason the dirty flag is cleared before the current entry is looked up: the seeded change that swaps the two, kept as the variant ConcF_counterexample_dirty_order, ends with an inexact weighted_size). Real threads: quiescent counters of the real-thread component (this is what found D10); the step from ConcS to the real scheduler is not proved. The detailed models treat each write of an entry's `admitted` / `dirty` flag as an atomic step that leaves the other flag alone; ConcB.lean makes that assumption a model of its own (one entry, any number of overwriting clients, one maintenance role; flags as two atomics, as one byte with atomic read-modify-write, and as one byte with load-then-store): with the first two the entry is counted exactly when its admitted flag is set, never twice, for all interleavings (ConcB_counted_once, ConcB_flags_independent, ConcB_packedAtomic_refines_separate), with the third — the seeded change C10f — a client's stale store wipes the admitted bit and the entry is counted twice (ConcB_counterexample_packed_racy). The arithmetic of every counter update (which operand is added or subtracted where, on both caches, incl. the run-local sums of the purges and of the size eviction) is translated from the Rust text on every run (translator group Counters, 49 sites) and proved to be what the models compute (Lemmas/Agree/Counters.lean, 20 equations): a wrong operand or operator at one of these sites breaks a proof obligation of this check whether or not a generated history reaches it.",
        "level_note": "Theorems are about the Lean models Unsync.lean and Sync.lean; tie = white-box differential runs (counters and map compared after every op) + counter/map-write site audit. Sketch table < 2^28 slots assumed. Four machine-checked counterexamples keep the repaired defects D1-D4 visible.",
    },
    "C01": {
        "lean_modules": ["MiniMoka.Props.C01", "MiniMoka.Props.ConcSLookup", "MiniMoka.Props.ConcF", "MiniMoka.Props.ConcFLookup", "MiniMoka.Props.ConcT"],
        "theorems": ["MiniMoka.Props.ConcT_run_fresh", "MiniMoka.Props.ConcT_get_fresh", "MiniMoka.Props.ConcT_inv_step", "MiniMoka.Props.ConcT_counterexample_ttl", "MiniMoka.Props.ConcT_counterexample_watermark", "MiniMoka.Props.ConcF_C01",
                     "MiniMoka.Props.ConcF_maintenance_only_deletes", "MiniMoka.Props.ConcF_counterexample_put_back",
                     "MiniMoka.Props.ConcS_C01",
                     "MiniMoka.Props.C01_unsync", "MiniMoka.Props.C01_sync"],
        "components": [("unsync", SMALL, 30, 50), ("sync", SMALL, 30, 50), ("unsync", ["big"], 4, 30),
                       ("sync", ["big"], 4, 30), ("unsync", ["batch"], 6, 30), ("sync", ["batch"], 6, 30)],
        "projection": "lookups",
        "oracle": "C01",
        "audit_kinds": ["map_write", "map_read", "time_check"],
        "corpus": ["C01", "D6", "D7", "D12"],
        "assumptions": COMMON_ASSUME,
        "level_text": "Unsync: proved for every configuration, hash function, weigher and history (C01_unsync: the oracle that tracks, per key, the value of the most recent insert and whether it has been invalidated accepts every trace of the model; proof by a coupling invariant between the model state and that bookkeeping, preserved by every operation). Sync: proved for the concurrent cache driven by one thread (C01_sync): every history, every placement of sync(), any number of queued operations, including the maintenance runs that insert/get/invalidate perform themselves; proof by frame lemmas over all of maintenance (the map only shrinks, last_modified never changes, last_accessed only moves forward to a queued hit) and a coupling invariant. Many threads: for every interleaving of the many-thread model ConcS.lean (calls split into map step / maintenance run / enqueue, operations ordered by their map steps) the same oracle accepts the linearised trace (ConcS_C01, and ConcF_C01 for the finest model). At the finest granularity (ConcF.lean: every map access of maintenance its own step) a maintenance micro-step only ever deletes map bindings, never writes one (ConcF_maintenance_only_deletes); the seeded 'put the victims back' change, kept as a variant, leaves a stale value in the map (ConcF_counterexample_put_back). Real threads are C02's concern. An update's clock reading and its map write as the two steps they are (ConcT.lean: any number of threads; between the reading and the write other threads advance the clock, update the key with a later reading, complete an invalidate_all): with the code's plain store of the reading into the shared timestamp — the store itself is translated from entry_info.rs on every run (group Stamps) — a value whose insert read the clock at r is never returned at a reading >= r + ttl nor after an invalidate_all with a strictly later reading has completed, for every interleaving (ConcT_run_fresh); with a forward-only store (the seeded changes C01h, C05i) both fail (ConcT_counterexample_ttl, ConcT_counterexample_watermark). On the implementation that window is reached deterministically (inject component, profile stamp: at the clock reading of a scripted whole-call insert another logical thread lets an invalidate_all complete and/or updates the key at later readings; the scripted call's older reading is noted in the trace) and judged by the run-time form of ConcT_run_fresh.",
        "level_note": "Theorems about Unsync.lean and Sync.lean; tie = differential runs (every lookup result compared) + map-site audit. The oracle also judges every implementation trace directly. Traces are judged up to the first internal panic (C08).",
    },
    "C05": {
        "lean_modules": ["MiniMoka.Props.C05", "MiniMoka.Props.ConcSLookup", "MiniMoka.Props.ConcFLookup", "MiniMoka.Props.ConcG", "MiniMoka.Props.ConcT"],
        "theorems": ["MiniMoka.Props.ConcT_run_fresh", "MiniMoka.Props.ConcT_get_fresh", "MiniMoka.Props.ConcT_inv_step", "MiniMoka.Props.ConcT_counterexample_ttl", "MiniMoka.Props.ConcT_counterexample_watermark", "MiniMoka.Props.ConcG_get_fresh", "MiniMoka.Props.ConcG_counterexample_split",
                     "MiniMoka.Props.ConcF_C05",
                     "MiniMoka.Props.ConcS_C05",
                     "MiniMoka.Props.C05_unsync", "MiniMoka.Props.C05_sync"],
        "components": [("unsync", ["boundary", "mixed", "churn", "synced"], 40, 50),
                       ("sync", ["boundary", "mixed", "churn", "synced", "burst"], 40, 50),
                       ("unsync", ["batch"], 12, 30), ("sync", ["batch"], 12, 30)],
        "projection": "lookups",
        "oracle": "C05",
        "audit_kinds": ["time_check", "time_write"],
        "corpus": ["C05"],
        "assumptions": COMMON_ASSUME + ["clock readings stay far below the Instant range (checked_add cannot fail)"],
        "level_text": "Proved for both caches, every ttl (incl. 0, with or without tti), every clock-advance pattern, history and (sync) placement of sync() with any queue state: C05_unsync, C05_sync. For every interleaving of the many-thread model ConcS.lean (operations ordered by their map steps; reads held by a thread across clock steps, updates and invalidations and enqueued late) the oracle accepts the linearised trace (ConcS_C05; ConcF_C05 for the finest model, where other threads step between the individual map accesses of maintenance). Real OS threads: stress only. The lookup's guard scope as a model of its own (ConcG.lean): ConcG_get_fresh (no value is returned at or past write time + ttl when fetch and test are atomic w.r.t. updates), ConcG_counterexample_split (guard released between fetch and test: the seeded change C05f). An update's clock reading and its map write as the two steps they are (ConcT.lean: any number of threads; between the reading and the write other threads advance the clock, update the key with a later reading, complete an invalidate_all): with the code's plain store of the reading into the shared timestamp — the store itself is translated from entry_info.rs on every run (group Stamps) — a value whose insert read the clock at r is never returned at a reading >= r + ttl nor after an invalidate_all with a strictly later reading has completed, for every interleaving (ConcT_run_fresh); with a forward-only store (the seeded changes C01h, C05i) both fail (ConcT_counterexample_ttl, ConcT_counterexample_watermark). On the implementation that window is reached deterministically (inject component, profile stamp: at the clock reading of a scripted whole-call insert another logical thread advances the clock and updates the key; the scripted call's older reading is noted in the trace) and judged by the run-time form of ConcT_run_fresh.",
        "level_note": "Theorems about Unsync.lean (timestamps live in the write-order nodes, as in the code) and Sync.lean (timestamps in the shared EntryInfo); tie = differential runs with boundary-landing clock steps + time-site audit.",
    },
    "C06": {
        "lean_modules": ["MiniMoka.Props.C06", "MiniMoka.Props.ConcSLookup", "MiniMoka.Props.ConcFLookup"],
        "theorems": ["MiniMoka.Props.ConcF_C06",
                     "MiniMoka.Props.ConcS_C06",
                     "MiniMoka.Props.C06_unsync", "MiniMoka.Props.C06_sync"],
        "components": [("unsync", ["boundary", "mixed", "churn", "synced"], 40, 50),
                       ("sync", ["boundary", "mixed", "churn", "synced", "burst"], 40, 50),
                       ("unsync", ["batch"], 12, 30), ("sync", ["batch"], 12, 30)],
        "projection": "lookups",
        "oracle": "C06",
        "audit_kinds": ["time_check", "time_write"],
        "corpus": ["C06", "D6"],
        "assumptions": COMMON_ASSUME + ["clock readings stay far below the Instant range (checked_add cannot fail)"],
        "level_text": "Proved for both caches, every tti, clock pattern, history and (sync) placement of sync(): C06_unsync, C06_sync; contains_key and iteration provably do not count as access, a late-applied read never extends the deadline beyond the get's own reading; the same for every interleaving of the many-thread model ConcS.lean, where a read can be held across clock steps, updates and invalidations before it is enqueued (ConcS_C06; ConcF_C06 for the finest model). Real OS threads: stress only.",
        "level_note": "Theorems about Unsync.lean and Sync.lean; tie = differential runs + time-site audit.",
    },
    "C08": {
        "lean_modules": ["MiniMoka.Props.C08Unsync", "MiniMoka.Props.C08Deque", "MiniMoka.Props.C08Sketch",
                         "MiniMoka.Props.C08SyncAll", "MiniMoka.Props.ConcS", "MiniMoka.Props.ConcM", "MiniMoka.Props.ConcF"],
        "theorems": ["MiniMoka.Props.ConcF_no_fault", "MiniMoka.Props.ConcF_inv", "MiniMoka.Props.ConcF_write_is_applyWrite", "MiniMoka.Props.ConcF_refines_ConcM",
                     "MiniMoka.Props.ConcM_no_fault", "MiniMoka.Props.ConcM_inv", "MiniMoka.Props.ConcM_run_is_trySync", "MiniMoka.Props.ConcM_refines_ConcS", "MiniMoka.Props.ConcM_counterexample_D7",
                     "MiniMoka.Props.ConcS_inv", "MiniMoka.Props.ConcS_no_fault_step", "MiniMoka.Props.ConcS_refines_Sync",
                     "MiniMoka.Props.C08_unsync_no_fault", "MiniMoka.Props.C08_unsync_structure",
                     "MiniMoka.Props.C08_sync", "MiniMoka.Props.C08_sync_structure",
                     "MiniMoka.Props.C08_sync_uaf_counterexample",
                     "MiniMoka.DequeHeap.C08_deque_sequences", "MiniMoka.DequeHeap.C08_deque_drop",
                     "MiniMoka.DequeHeap.C08_deque_iterator", "MiniMoka.DequeHeap.C08_deque_contains",
                     "MiniMoka.Sketch.C08_sketch_no_overflow", "MiniMoka.Sketch.C08_sketch_only_count_overflow",
                     "MiniMoka.Sketch.C08_sketch_legacy_counterexample"],
        "components": [("unsync", ALL, 30, 50), ("sync", ALL, 30, 50), ("unsync", ["batch"], 12, 30),
                       ("sync", ["batch"], 12, 30), ("unsync", ["regrow"], 4, 40), ("sync", ["regrow"], 4, 40),
                       ("deque", ["all"], 60, 300), ("sketch", ["all"], 40, 600)],
        "projection": "full",
        "oracle": "C08",
        "audit_kinds": ["panic", "unsafe", "deque_op", "counter"],
        "corpus": ["C08", "D5", "D7"],
        "assumptions": COMMON_ASSUME,
        "level_text": "Unsync: proved that no history reaches any expect/unwrap/unreachable!/'not a member' panic, overflow-checked counter operation or dangling node reference (C08_unsync_no_fault, C08_unsync_structure: the map-entry/list-node ownership invariant for every reachable state). The intrusive list itself: pointer-level heap model of common/deque.rs, every operation preserves well-formedness, frees exactly the intended node, never dereferences freed memory, for all legal operation sequences (C08_deque_sequences) incl. cursor and Drop. Sketch arithmetic: no overflow for tables below 2^28 slots (C08_sketch_no_overflow); the u32 odd-counter count is the only thing that can overflow at any size (C08_sketch_only_count_overflow); machine-checked counterexample for the repaired reset formula. Sync driven by one thread: proved that no history (any placement of sync(), any queue state, both housekeeping regimes) reaches a panic of any kind (C08_sync), by the node-ownership invariant NodesInvTop/MapOK holding in every reachable state (C08_sync_structure: node ids pairwise distinct, each node owned by exactly one EntryInfo that points back at it, no node freed while referenced, admitted iff it owns an access-order node, entry count = list length); the repaired use-after-free D7 is kept as a machine-checked counterexample under its quirk switch (C08_sync_uaf_counterexample). Many threads, at the granularity 'per-key map step / maintenance run / enqueue' (model ConcS.lean: any number of threads, each call split into its map step, an optional maintenance run and the enqueue of its op, freely interleaved; maintenance atomic with respect to other threads' map steps): proved for ALL interleavings that no enabled step reaches a faulty state and the node-ownership invariant holds (ConcS_inv, ConcS_no_fault_step); the one-thread model is the special case (ConcS_refines_Sync). Finer still, model ConcM.lean: a maintenance run is a sequence of atomic micro-steps (one queued read, one queued write op, one iteration of an expiry or LRU eviction loop, publish) between which other threads take map steps and enqueue; proved for ALL interleavings: no reachable state is faulty and the ownership invariant holds in its in-run form (ConcM_no_fault, ConcM_inv); a run executed back to back is trySync (ConcM_run_is_trySync), so ConcS is contained (ConcM_refines_ConcS); with the D7 switch on an interleaving (invalidate between the queue-length read and the application of the key's upsert, re-insert, admission) ends in use-after-free (ConcM_counterexample_D7). Finest, model ConcF.lean: every map access of the application of a queued upsert is its own atomic step (clear the dirty flag; look the current entry up and re-weigh it; one step per node of the admission scan; one step per victim removal; the rejection removal), other threads stepping in between; proved for ALL interleavings: no fault, the in-write ownership invariant (ConcF_no_fault, ConcF_inv), back-to-back the micro-steps are applyWrite (ConcF_write_is_applyWrite), so ConcM is contained (ConcF_refines_ConcM). Not modelled: the two map accesses of a FAILED eviction-loop iteration are one step; memory ordering; the allocator; debug-profile stress and, in the thorough tier, Miri.",
        "level_note": "Faults are explicit in the model (sticky fault field); tie = full white-box differential runs in the debug profile + panic/unsafe site audit. Real interleavings and the allocator are not modelled.",
    },
    "C03": {
        "lean_modules": ["MiniMoka.Props.C03", "MiniMoka.Props.C03A", "MiniMoka.Props.C03ASync", "MiniMoka.Props.C03BSync", "MiniMoka.Props.NoFreq", "MiniMoka.Props.C03BTrace", "MiniMoka.Props.ConcSNoLoss", "MiniMoka.Props.ConcFMore", "MiniMoka.Props.ConcSRefill", "MiniMoka.Props.C03W"],
        "theorems": ["MiniMoka.Props.C03B_sync_W", "MiniMoka.Props.C03B_sync_W_noFreq", "MiniMoka.Props.fitsC03SyncW_of_C10", "MiniMoka.Props.ConcS_C03B_after_any_phase", "MiniMoka.Props.ConcS_C03_refill_retained", "MiniMoka.Props.ConcS_C03_refill_counters",
                     "MiniMoka.Props.ConcS_reach_continuation", "MiniMoka.Props.ConcS_valid_after_le_now",
                     "MiniMoka.Props.ConcF_no_spurious_removal",
                     "MiniMoka.Props.ConcS_no_spurious_removal", "MiniMoka.Props.ConcS_insert_retained", "MiniMoka.Props.ConcS_insert_retained_path",
                     "MiniMoka.Props.C03_unsync_oracle", "MiniMoka.Props.C03_unsync_oracle_noFreq", "MiniMoka.Props.C03B_unsync_trace",
                     "MiniMoka.Props.C03_sync_oracle_noFreq","MiniMoka.Props.C03_sync_oracle", "MiniMoka.Props.C03B_sync", "MiniMoka.Props.C03A_sync", "MiniMoka.Props.C03A_sync_large_capacity", "MiniMoka.Props.C03A_sync_oracle",
                     "MiniMoka.Props.C03A_unsync", "MiniMoka.Props.C03A_unsync_large_capacity", "MiniMoka.Props.C03A_unsync_oracle",
                     "MiniMoka.Props.C03B_unsync", "MiniMoka.Props.C03_unsync_purge_only_expired", "MiniMoka.Props.C03_unsync_counterexample_D3"],
        "components": [("unsync", [x + ":none" for x in SMALL], 12, 50), ("unsync", [x + ":large" for x in SMALL], 12, 50),
                       ("sync", [x + ":none" for x in SMALL], 12, 50), ("sync", [x + ":large" for x in SMALL], 12, 50),
                       ("unsync", SMALL, 20, 50), ("sync", SMALL, 20, 50),
                       ("unsync", ["batch:none", "batch"], 6, 30), ("sync", ["batch:none", "batch"], 6, 30)],
        "projection": "state",
        "oracle": "C03",
        "audit_kinds": ["map_write", "counter", "time_write", "time_check"],
        "corpus": ["C03", "D3", "D4", "D6", "D7"],
        "assumptions": COMMON_ASSUME,
        "level_text": "Oracle: a map-with-expiry reference is run beside every implementation trace; with no capacity (or a capacity the history never reaches) every lookup must return exactly what the reference requires (on the concurrent cache the idle extension of a get is owed only after the next sync); with bounded capacity every insert of a fresh key that fits in the room left by the physical residents must be retained and evict nothing. Proved on the single-threaded model for every configuration, hash, weigher and history: with no capacity, or a capacity the inserted weight never reaches, every get / contains_key / iteration returns exactly what the map-with-expiry reference requires (C03A_unsync, C03A_unsync_large_capacity, C03A_unsync_oracle: two-way coupling, soundness from C01 plus completeness: every entry the reference must hold is resident); with bounded capacity an insert that fits is retained and evicts no unexpired resident (C03B_unsync), and the purge removes only expired entries. Concurrent cache driven by one thread, proved for every configuration, history, placement of sync() and clock pattern: with no capacity, or a capacity the inserted weight never reaches, every lookup returns exactly what the reference requires, the idle extension of a get being owed once maintenance has applied it (C03A_sync, C03A_sync_large_capacity, C03A_sync_oracle: two-way coupling, completeness from 'maintenance removes an entry only if it is expired or invalidated, judged with every queued read applied'). Part B on the concurrent cache is proved as well (C03B_sync, hence the whole oracle: C03_sync_oracle): between two quiescent snapshots a fresh key, inserted once or several times before maintenance runs, keeps its latest value if that fits in the room the residents leave, and if every inserted value fits nothing unexpired is evicted (the accounted weight is that of the value the map holds now, so an earlier, heavier value never causes a rejection of the later one). Many threads, no capacity (model ConcS.lean, all interleavings): a step removes a map entry only if it is the invalidate of that key, or a maintenance run that finds it expired or hidden by the watermark; an inserted entry stays resident along every path that does not disturb it in one of these ways, whether or not its write op has been enqueued (ConcS_no_spurious_removal, ConcS_insert_retained, ConcS_insert_retained_path; ConcF_no_spurious_removal for the finest model, where the removing step is a single maintenance micro-step). The multi-threaded refill clause: real-thread component, stress only. The thread clause of the property is proved for the many-thread model: after ANY interleaving of ConcS that ends with nobody holding an operation, every single-threaded continuation satisfies the part-B oracle (ConcS_C03B_after_any_phase), and concretely the sequential refill — invalidate every resident, sync, then insert up to max_capacity fresh unit-weight keys with a sync after each — retains every one of them, with exact counters before and after (ConcS_C03_refill_retained, ConcS_C03_refill_counters). The room of part B is also judged from what the residents WEIGH, not only from the weight the cache has recorded for them (fitsC03SyncW: the configured weigher applied to the residents of the quiescent snapshot; round 9, seeded change C03i left a stale weight accounted and the oracle that trusted the record agreed with the implementation): on every trace on which the counters oracle holds the two forms coincide (fitsC03SyncW_of_C10), hence it accepts every model trace (C03B_sync_W, C03B_sync_W_noFreq from C03B_sync and C10_sync).",
        "level_note": "Theorem about Unsync.lean; tie = differential runs with capacity none/large/small + oracle on every implementation trace.",
    },
    "C04": {
        "lean_modules": ["MiniMoka.Props.C04", "MiniMoka.Props.C10Sync", "MiniMoka.Props.NoFreq", "MiniMoka.Props.ConcS", "MiniMoka.Props.ConcM", "MiniMoka.Props.ConcF"],
        "theorems": ["MiniMoka.Props.ConcF_C04_overshoot",
                     "MiniMoka.Props.ConcM_C04_overshoot",
                     "MiniMoka.Props.ConcS_C04_overshoot", "MiniMoka.Props.ConcS_C04_weight_after_maint",
                     "MiniMoka.Props.C04_unsync_noFreq", "MiniMoka.Props.C04_sync_noFreq","MiniMoka.Props.C04_sync", "MiniMoka.Props.C04_sync_count", "MiniMoka.Props.C04_sync_after_sync",
                     "MiniMoka.Props.C04_unsync", "MiniMoka.Props.C04_unsync_worked_off", "MiniMoka.Props.C04_unsync_bound_preserved",
                     "MiniMoka.Props.C04_unsync_oversized_never_retained", "MiniMoka.Props.C04_unsync_excess_worked_off",
                     "MiniMoka.Props.C04_unsync_excess_gone_after"],
        "components": [("unsync", SMALL, 30, 50), ("sync", SMALL, 30, 50), ("unsync", ["oversize", "batch"], 12, 40),
                       ("sync", ["oversize", "batch"], 12, 40), ("unsync", ["big"], 4, 30), ("sync", ["big"], 4, 30)],
        "projection": "counters",
        "oracle": "C04+C10",
        "audit_kinds": ["counter", "map_write"],
        "corpus": ["C04", "D3", "D4", "D8"],
        "assumptions": COMMON_ASSUME + ["sums of weights stay below 2^64 (the code's plain u64 additions)"],
        "level_text": "Single-threaded cache, proved for every configuration, hash, weigher and history: every operation other than an update that makes a resident entry heavier keeps weighted_size (= sum of resident weights, C10) within max_capacity (C04_unsync_bound_preserved); a new key heavier than the whole capacity is never retained (C04_unsync_oversized_never_retained); excess caused by a growing update is worked off by every following operation that runs maintenance, at least one eviction batch per call, and is gone after ceil(n/batch) lookups (C04_unsync_excess_worked_off, _gone_after); and the trace oracle that judges implementation runs accepts every model trace (C04_unsync). Concurrent cache driven by one thread, proved for every configuration and history: at every snapshot |map| <= entry_count + |write queue| (C04_sync_count: the overshoot between maintenance runs is bounded by the write queue); after every maintenance run weighted_size <= max_capacity or the run removed a full eviction batch (C04_sync_after_sync: excess, which only a growing update can create, is worked off one batch per run); the trace oracle accepts every model trace (C04_sync). The overshoot bound of the property is proved for all interleavings of the many-thread model ConcS.lean: always |map| <= entry_count + |write queue| + number of threads holding a write (ConcS_C04_overshoot, tight; ConcM_C04_overshoot / ConcF_C04_overshoot with the run-local count inside a maintenance run), and after a maintenance run with no write held the weight is within capacity or a full batch was removed (ConcS_C04_weight_after_maint). The step from ConcS to real OS threads is not proved (stress). The arithmetic of every counter update (which operand is added or subtracted where, on both caches, incl. the run-local sums of the purges and of the size eviction) is translated from the Rust text on every run (translator group Counters, 49 sites) and proved to be what the models compute (Lemmas/Agree/Counters.lean, 20 equations): a wrong operand or operator at one of these sites breaks a proof obligation of this check whether or not a generated history reaches it.",
        "level_note": "Theorems about Unsync.lean and Sync.lean. An earlier version of the concurrent-cache oracle (excess tolerated only above 400 residents) was false on the current code; the prover found the witness, the oracle was corrected (DESIGN.md 2.3). The oracle on implementation traces also applies C10's counter check so that a bound kept only by mis-counting is reported. Tie: differential runs incl. zero weights, weights above capacity, capacity 0.",
    },
    "C11": {
        "lean_modules": ["MiniMoka.Props.C11", "MiniMoka.Props.C10Sync", "MiniMoka.Props.ConcS", "MiniMoka.Props.ConcM", "MiniMoka.Props.ConcF"],
        "theorems": ["MiniMoka.Props.ConcF_C11_quiescent",
                     "MiniMoka.Props.ConcM_C11_quiescent",
                     "MiniMoka.Props.ConcS_C11_quiescent", "MiniMoka.Props.ConcS_C11_bounded",
                     "MiniMoka.Props.C11_unsync", "MiniMoka.Props.snapshot_live", "MiniMoka.Props.C11_sync",
                     "MiniMoka.Props.C11_sync_counterexample_D7"],
        "components": [("unsync", ALL, 30, 50), ("sync", ALL, 30, 50), ("unsync", ["batch", "oversize"], 10, 40),
                       ("sync", ["batch", "oversize"], 10, 40)],
        "projection": "full",
        "oracle": "C11",
        "audit_kinds": ["map_write", "deque_op", "channel"],
        "corpus": ["C11", "D11", "D7"],
        "assumptions": COMMON_ASSUME + ["Rust's ownership discipline: an object is dropped when its last owner goes; Drop of HashMap/DashMap, of the channels and of Deque (proved separately: C08_deque_drop) releases what they hold",
                                         "the instrumented key/value types of the harness count constructions, clones and drops faithfully"],
        "level_text": "Single-threaded cache: proved for every configuration, hash, weigher and history that after every operation the live key objects (the Rc<K> shared by the map key and the nodes of both lists) and the live value objects are exactly one per resident entry (C11_unsync, by the structural invariant: every list node is owned by the map entry of its key). Concurrent cache: the model tracks object identities (the map's Arc<K>, the copies carried by queued ops and list nodes, the TrioArc<ValueEntry> in map / write ops / read ops); the implementation's live counts (instrumented types) must equal the model's after every operation, proved for every configuration and history of the one-thread model (C11_sync): whenever both queues are empty live keys = live values = resident entries, and otherwise the excess is bounded by what the queues and list nodes hold; for all interleavings of the many-thread model ConcS.lean the same holds whenever no thread is between its map step and its enqueue (ConcS_C11_quiescent, ConcS_C11_bounded; ConcM_C11_quiescent / ConcF_C11_quiescent for the finer models with non-atomic maintenance); on the implementation the live counts must equal the model's after every operation and be zero after the cache is dropped (two times out of three with operations still queued; what Drop releases is Rust semantics, trusted). The pointer-level half (every deque node freed exactly once, Drop frees all) is C08_deque_sequences / C08_deque_drop.",
        "level_note": "Tie = differential runs with drop-counting key/value types, live counts in every snapshot and after drop. One genuine defect found this way and repaired (D11: an update left a second copy of the key alive in the list nodes).",
    },
    "C12": {
        "lean_modules": ["MiniMoka.Props.C12", "MiniMoka.Props.C13Sync", "MiniMoka.Props.C12Exp", "MiniMoka.Props.C12SyncGrowth"],
        "theorems": ["MiniMoka.Props.C12_sync_growth", "MiniMoka.Props.C12_sync_growth_state", "MiniMoka.Props.C12_unsync_growth_expiry", "MiniMoka.Props.C12_unsync_purge_exact", "MiniMoka.Props.C12_unsync_timestamps_sorted",
                     "MiniMoka.Props.C12_sync_oracle", "MiniMoka.Props.C12_sync_recency", "MiniMoka.Props.C12_sync_recency_state",
                     "MiniMoka.Props.C12_unsync_oracle", "MiniMoka.Props.C12_unsync_recency", "MiniMoka.Props.C12_unsync_admission_victims",
                     "MiniMoka.Props.C12_unsync_growth_eviction", "MiniMoka.Props.C12_unsync_no_growth_eviction",
                     "MiniMoka.Props.C12_recency_order", "MiniMoka.Props.C12_prefLen_meaning"],
        "components": [("unsync", ["growth", "scan", "mixed", "churn", "synced"], 30, 50),
                       ("sync", ["growth", "scan", "mixed", "churn", "synced"], 30, 50),
                       ("unsync", ["oversize", "batch"], 10, 40), ("sync", ["oversize"], 10, 40),
                       ("unsync", ["growexp"], 60, 40), ("sync", ["growexp"], 30, 40)],
        "projection": "full",
        "oracle": "C12",
        "audit_kinds": ["deque_op", "map_write"],
        "corpus": ["C12"],
        "assumptions": COMMON_ASSUME,
        "level_text": "Single-threaded cache, proved for every configuration, hash, weigher and state satisfying the structural invariant (hence every reachable state): the victims of an admission are exactly the shortest prefix of the recency order (least recently used first) whose weights cover the missing room (C12_unsync_admission_victims, C12_prefLen_meaning); the size eviction after a growing update removes exactly the LRU prefix needed, at most one batch per call, and nothing when within capacity (C12_unsync_growth_eviction, _no_growth_eviction); the recency order itself is the order of last use (insert, update, successful get), for any number of operations between two observations; contains_key, iteration and invalidation only remove from it (C12_unsync_recency, C12_recency_order); the trace oracle used on implementation runs accepts every model trace (C12_unsync_oracle). With stale residents present (some residents already past a deadline when the next lookup runs, the cache over capacity after a growing update): the lookup purges exactly the stale residents first (all of them when they fit one batch: C12_unsync_purge_exact, from the new invariant that both lists are sorted by timestamp, C12_unsync_timestamps_sorted) and only then removes the shortest LRU prefix of the REMAINING residents that covers the REMAINING excess; the oracle for this window (growthExpC12, which rejects a purge in the other order) accepts every model trace (C12_unsync_growth_expiry). Concurrent cache driven by one thread: proved for every configuration and history that the same oracle accepts every model trace (C12_sync_oracle): admission victims are the shortest LRU prefix (C13_sync_admission) and, between two quiescent snapshots with one use, the access order is the survivors in their old order followed by the used key (C12_sync_recency, C12_sync_recency_state: maintenance applies recorded reads then writes; expiry, eviction and invalidation only remove; skipped nodes are never current). Who leaves after an entry of the concurrent cache grew: in every window `sync, snap, [freq,] ins k v, [snap,] sync, snap` with empty queues in which k is resident in a calm cache and v is not heavier than the capacity, the update makes k the most recently used entry, the total becomes ws - old + new, and the maintenance run removes exactly the shortest prefix of the recency order (old order without k, then k, with k's new weight) that covers the excess, and nothing else (C12_sync_growth: the oracle growthC12Sync accepts every model trace, both housekeeping regimes; C12_sync_growth_state is the state-level form).",
        "level_note": "Theorems about Unsync.lean; tie = white-box differential runs comparing the whole access-order deque after every operation.",
    },
    "C13": {
        "lean_modules": ["MiniMoka.Props.C13", "MiniMoka.Props.C13Sync", "MiniMoka.Props.C13Dangling"],
        "theorems": ["MiniMoka.Props.C13_sync_dangling", "MiniMoka.Props.C13_sync_dangling_state", "MiniMoka.Props.C13_sync_oracle", "MiniMoka.Props.C13_sync_admission", "MiniMoka.Props.C13_sync_has_room",
                     "MiniMoka.Props.C13_sync_scan_resistance", "MiniMoka.Props.C13_unsync_oracle", "MiniMoka.Props.C13_unsync_admission",
                     "MiniMoka.Props.C13_admit_closed_formula", "MiniMoka.Props.C13_unsync_oversized",
                     "MiniMoka.Props.C13_unsync_has_room", "MiniMoka.Props.C13_scan_resistance",
                     "MiniMoka.Props.C13_hot_key_admitted", "MiniMoka.Props.C13_zero_weight"],
        "components": [("unsync", ["scan", "growth", "mixed", "churn", "synced"], 30, 50),
                       ("sync", ["scan", "growth", "mixed", "churn", "synced"], 30, 50),
                       ("unsync", ["oversize"], 10, 40), ("sync", ["oversize"], 10, 40),
                       ("sync", ["dangling"], 12, 40), ("unsync", ["dangling"], 4, 40)],
        "projection": "full",
        "oracle": "C13",
        "audit_kinds": ["sketch_op", "map_write", "deque_op"],
        "corpus": ["C13"],
        "assumptions": COMMON_ASSUME,
        "level_text": "Single-threaded cache, proved for every configuration, hash, weigher and reachable state: a new key is admitted iff it fits outright, or the victims (shortest LRU prefix covering its weight) exist and their summed popularity estimates are strictly below the candidate's (C13_unsync_admission with the closed formula C13_admit_closed_formula); a key heavier than the capacity is rejected without evicting anything (C13_unsync_oversized); with room nothing is evicted (C13_unsync_has_room); a never-read key cannot displace residents (C13_scan_resistance); a key read more often than all victims together is admitted (C13_hot_key_admitted); zero-weight edge cases (C13_zero_weight); the trace oracle that predicts every admission decision from the preceding snapshot and popularity reading accepts every model trace (C13_unsync_oracle). Concurrent cache driven by one thread (maintenance after the insert, as the property states): proved for every configuration, history and reachable quiescent state: the same closed formula decides admission, exactly the shortest LRU prefix leaves, a rejection changes neither the map nor the recency order (C13_sync_admission, C13_sync_has_room, C13_sync_scan_resistance), and the trace oracle accepts every model trace (C13_sync_oracle); the estimate read just before the insert is the one admission uses. An admission that meets a DANGLING node (round 9, seeded change C13i): in a quiescent calm full cache, insert(k) of a fresh key followed by invalidate(a) of a resident before the maintenance run that decides on k — a's node is still linked and its weight still accounted, but a is no resident any more: k is compared with the shortest LRU prefix of the OTHER residents whose weights reach its own, a's popularity does not count, and afterwards the cache holds the old residents minus a, minus the victims, plus k (admitted) or the old residents minus a (rejected), in both housekeeping regimes (C13_sync_dangling_state, and the window oracle admitDanglingC13 accepts every model trace: C13_sync_dangling; it judges every implementation trace of this check, new profile 'dangling').",
        "level_note": "Theorems about Unsync.lean with the sketch model of C14; tie = white-box differential runs with a popularity reading (hook) before every insert, estimates of all residents in every snapshot.",
    },
    "C14": {
        "lean_modules": ["MiniMoka.Props.C14", "MiniMoka.Props.C08Sketch", "MiniMoka.Props.C14Cache", "MiniMoka.Props.C14Trace", "MiniMoka.Props.C14Bits"],
        "theorems": ["MiniMoka.Props.SketchW_frequency_refines", "MiniMoka.Props.SketchW_increment_refines",
                     "MiniMoka.Props.SketchW_ensureCapacity_refines", "MiniMoka.Props.SketchW_run_refines",
                     "MiniMoka.Props.SketchW_run_frequency", "MiniMoka.Props.SketchW_run_complete",
                     "MiniMoka.Props.C14_unsync_trace_noFreq", "MiniMoka.Props.C14_sync_trace_noFreq",
                     "MiniMoka.Props.C14_unsync_trace", "MiniMoka.Props.C14_sync_trace","MiniMoka.Props.C14_unsync_only_get_records", "MiniMoka.Props.C14_unsync_get_records_once",
                     "MiniMoka.Props.C14_sync_only_get_queues_reads", "MiniMoka.Props.C14_sync_get_queues_one_read",
                     "MiniMoka.Props.C14_sync_sketch_fed_by_reads_only", "MiniMoka.Props.C14_sync_step_feed",
                     "MiniMoka.Props.C14_unsync_sketch_holds_exactly_the_gets",
                     "MiniMoka.Props.C14_sync_sketch_holds_exactly_the_gets",
                     "MiniMoka.Sketch.C14_bounds", "MiniMoka.Sketch.C14_never_underestimates",
                     "MiniMoka.Sketch.C14_exact_without_collision", "MiniMoka.Sketch.C14_others_never_lower",
                     "MiniMoka.Sketch.C14_aging_halves_all", "MiniMoka.Sketch.C08_sketch_no_overflow"],
        "components": [("sketch", ["all"], 60, 600), ("unsync", ["scan", "mixed", "synced"], 30, 50),
                       ("sync", ["scan", "mixed", "synced"], 30, 50),
                       ("unsync", ["regrow"], 8, 40), ("sync", ["regrow"], 8, 40)],
        "projection": "full",
        "oracle": "C14",   # Python oracle on sketch-facade traces, driver oracle onlyGetC14 on cache traces
        "audit_kinds": ["sketch_op"],
        "corpus": ["C14", "D5"],
        "assumptions": COMMON_ASSUME + ["the code's bit tricks (+= 1 << off, (w >> 1) & RESET_MASK, (w & ONE_MASK).count_ones()) implement the arithmetic meaning used by the model: checked word-for-word by the sketch facade component, not proved"],
        "level_text": "Proved on the model of frequency_sketch.rs for every capacity (0, non powers of two, ...), every hash sequence and every interleaving with aging steps: estimate <= 15, estimate >= saturating/halved lookup count (never underestimates), equality when one of the key's four counters is used by no other recorded hash, recording other hashes never lowers an estimate except through an aging step, which floor-halves every counter and every estimate; no overflow below 2^28 table slots. 'Only get records', proved on both cache models for every history: an operation other than get changes no estimate (C14_unsync_only_get_records), each get records its hash exactly once (C14_unsync_get_records_once); on the concurrent cache only get appends to the read queue, exactly one read per get, never dropped (C14_sync_only_get_queues_reads, C14_sync_get_queues_one_read'), the write and eviction paths never touch the sketch and applying a read is exactly one increment (C14_sync_sketch_fed_by_reads_only, C14_sync_step_feed); the trace oracle used on implementation runs (across an operation that is not a get, with no recorded read waiting, no resident key's estimate changes) accepts every trace of both models (C14_unsync_trace, C14_sync_trace and their noFreq forms); at any time the sketch holds exactly the recorded lookups since it was enabled (…_sketch_holds_exactly_the_gets; lookups before enabling, incl. those drained in the enabling pass, are not recorded: enabling starts from the empty sketch). The statements about counters read arithmetically are carried to the code's word-level bit manipulation, which is re-translated from frequency_sketch.rs on every run: for all 2^64 words the shift/mask/popcount tricks mean what the arithmetic model says (counter_of_word_agrees, inc_room_agrees, inc_delta_agrees, odd_counters_agrees, halved_word_agrees), and the word-level sketch SketchW refines the arithmetic one operation by operation and over every run (SketchW_frequency_refines, SketchW_increment_refines, SketchW_ensureCapacity_refines, SketchW_run_refines).",
        "level_note": "Index computation mirrors the code's wrapping u64 arithmetic; counter updates are modelled arithmetically (w / 16^j % 16). Tie: facade component compares table (FNV digest of all words), size and sample size after every 97 increments and every estimate.",
    },
    "C17": {
        "lean_modules": ["MiniMoka.Props.C17", "MiniMoka.Props.C03ASync", "MiniMoka.Props.C10", "MiniMoka.Props.C10Sync"],
        "theorems": ["MiniMoka.Props.C10_unsync", "MiniMoka.Props.C10_sync", "MiniMoka.Props.C17_no_capacity_never_evicts_sync", "MiniMoka.Props.C17_no_capacity_never_evicts_sync_trace",
                     "MiniMoka.Props.C17_policy_roundtrip", "MiniMoka.Props.C17_panic_iff",
                     "MiniMoka.Props.C17_new_eq_builder", "MiniMoka.Props.C17_initial_capacity_unobservable",
                     "MiniMoka.Props.C17_default_weight_one", "MiniMoka.Props.C17_no_capacity_never_evicts_unsync"],
        "components": [("config", ["all"], 400, 24), ("unsync", ["mixed:none", "growth:none", "scan:none"], 15, 50),
                       ("sync", ["mixed:none", "growth:none", "scan:none"], 15, 50),
                       # every third case is built with an `initial_capacity` the model ignores
                       ("unsync", ["mixed", "growth", "scan"], 15, 50), ("sync", ["mixed", "growth", "scan"], 15, 50)],
        "projection": "full",
        "oracle": "C17+C10",
        "audit_kinds": ["panic"],
        "corpus": ["C17"],
        "assumptions": COMMON_ASSUME + ["initial capacities large enough to abort in the allocator are outside the model (resource exhaustion)"],
        "level_text": "A configured weigher is the one applied, with or without max_capacity: at every snapshot of the single-threaded cache and every quiescent one of the concurrent cache weighted_size is the sum of the configured weigher over the residents (C10_unsync, C10_sync; that oracle judges every trace of this check too, after the seeded change C17i made an unbounded cache with a weigher weigh every entry 1). Proved on the model of the builders, Cache::new and Policy: policy() returns exactly the knobs (C17_policy_roundtrip); build panics iff ttl or tti > 1000 years, boundary accepted, +1 ns rejected (C17_panic_iff); new(n) = builder().max_capacity(n).build(); initial_capacity occurs nowhere in the cache models; without a weigher every entry weighs 1; without max_capacity the single-threaded cache never evicts for size (C17_no_capacity_never_evicts_unsync). The concurrent-cache version is proved too (C17_no_capacity_never_evicts_sync: without max_capacity a maintenance run removes a map entry only if it is expired or hidden by the invalidate_all watermark, judged with every queued read applied; trace form = C03A_sync).",
        "level_note": "Tie: config component — every combination of builder knobs incl. boundary durations and both constructors on both caches, policy() compared with the model and judged by a direct oracle (panic iff > 1000 y, getters = knobs), followed by a short below-capacity history.",
    },
    "C09": {
        "lean_modules": ["MiniMoka.Props.C09Conc", "MiniMoka.Props.C09Seq", "MiniMoka.Props.ConcSProgress", "MiniMoka.Props.C09Depart", "MiniMoka.Props.ConcFMore"],
        "theorems": ["MiniMoka.Props.ConcF_run_terminates", "MiniMoka.Props.ConcF_no_stuck_state",
                     "MiniMoka.Props.ConcS_maint_always_enabled", "MiniMoka.Props.ConcS_enq_after_maint", "MiniMoka.Props.ConcS_no_stuck_state",
                     "MiniMoka.Props.C09_ConcS_complete_without_idle_threads", "MiniMoka.Props.C09_ConcS_departed_thread_not_needed",
                     "MiniMoka.Sync.C09_sync_no_hang", "MiniMoka.Sync.C09_sync_queues_bounded",
                     "MiniMoka.Sync.C09_sync_insert_first_try", "MiniMoka.Sync.C09_sync_read_never_dropped",
                     "MiniMoka.Sync.C09_sync_maintenance_empties", "MiniMoka.ConcL.C09_no_deadlock", "MiniMoka.ConcL.C09_runs_bounded",
                     "MiniMoka.ConcL.C09_all_return", "MiniMoka.ConcL.C09_flag_released",
                     "MiniMoka.ConcL.C09_table_ok"],
        "components": [("sync", ["oversize", "burst", "churn", "growth", "mixed"], 40, 60),
                       ("sync", ["big", "batch"], 6, 40), ("sync", ["expnext", "boundary", "synced"], 30, 50), ("sync", ["monoburst"], 6, 50),
                       ("stall", ["leave"], 12, 0)],
        "projection": "state",
        "oracle": "C08",
        "audit_kinds": ["lock", "channel", "lock_order"],
        "corpus": ["C09"],
        "assumptions": COMMON_ASSUME + ["the lock-event table of ConcL.lean is a hand transcription of the lock sites (tied by the lock/channel site audit)", "starvation of one inserter by unfair scheduling is outside the statement", "threads do not hold an iterator while calling the cache"],
        "level_text": "Locks: proved for all interleavings and any number of threads that a system whose threads follow the lock-event table of the five operations cannot deadlock, runs a bounded number of lock steps and always returns all locks and the is_sync_running flag (generic theorem + decidable check of the transcribed table). Single thread: proved on Sync.lean for every configuration (even with the defect switches on) and every history that no insert/invalidate ever reaches the retry branch of the bounded channel (C09_sync_insert_first_try: the send succeeds at the first attempt), no read record is dropped, the queues never exceed their flush points between operations (C09_sync_queues_bounded; the bound is tight) and one maintenance run empties both queues (C09_sync_maintenance_empties); hence no operation spins (C09_sync_no_hang). Many threads at the granularity of ConcS.lean: a maintenance run is enabled in every reachable state, after one run every held operation can be enqueued, and from every reachable state at most two events per holding thread complete all started calls (ConcS_maint_always_enabled, ConcS_enq_after_maint, ConcS_no_stuck_state), and those events are steps of the holding threads only: no step of an idle thread, e.g. one that ran the last maintenance and left, is needed, whatever it left behind (C09_ConcS_complete_without_idle_threads, C09_ConcS_departed_thread_not_needed); in the finest model ConcF.lean every maintenance run in progress completes after finitely many micro-steps of its own thread whatever the others did in between, and from every reachable state some finite continuation leaves no run in progress and nothing held (ConcF_run_terminates, ConcF_no_stuck_state); every step is a total, fuel-bounded function. Fairness of the scheduler is assumed. A watchdog judges the implementation: any operation that does not return within the watchdog period is reported with its history as replay (un-synced bursts far beyond the write-queue size, both housekeeping regimes, oversized updates invalidated while queued), and real-thread rounds in which one thread is parked inside a maintenance run at a user callback while 2-3 writers fill the write channel, is then released and leaves: every writer must finish on its own (component `stall`).",
        "level_note": "The deadlock theorem is about an abstract lock model, not the code; real OS threads, DashMap and crossbeam internals are trusted. Tie: lock/channel site audit + watchdog runs.",
    },
    "C15": {
        "lean_modules": ["MiniMoka.Props.C15"],
        "theorems": ["MiniMoka.Props.C15_sync", "MiniMoka.Props.C15_sync_trace", "MiniMoka.Props.C15_sync_insert_anywhere",
                     "MiniMoka.Props.C15_unsync_iter", "MiniMoka.Props.C15_unsync_contains_key_partial",
                     "MiniMoka.Props.C15_unsync_contains_key_reachable", "MiniMoka.Props.C15_unsync_counterexample"],
        "components": [("meta-unsync", SMALL, 40, 50), ("meta-sync", SMALL, 40, 50),
                       ("meta-unsync", ["oversize"], 40, 40), ("meta-sync", ["oversize"], 30, 40)],
        "projection": "full",
        "oracle": "C08",
        "audit_kinds": ["map_read", "sketch_op", "time_write", "deque_op"],
        "corpus": ["C15"],
        "assumptions": COMMON_ASSUME,
        "level_text": "Concurrent cache: proved that contains_key and iteration leave the whole model state unchanged (C15_sync_step) and therefore that deleting every such call from any history changes no other observation (C15_sync, C15_sync_insert_anywhere): no recency, popularity, idle-timer or queue effect. Single-threaded cache: the same for iteration (C15_unsync_iter); contains_key is &mut and runs the pending maintenance, so the full statement is false there (machine-checked counterexample C15_unsync_counterexample = known finding D9); proved instead (…_partial) that contains_key changes nothing at all when nothing has expired and weighted_size is within capacity (C15_unsync_contains_key_partial / _reachable), i.e. it never touches recency, popularity or timers and can only do what the next operation would have done anyway. Implementation: metamorphic check (a history with and without extra contains_key/iter calls must give the same answers and the same final white-box state); the D9 signature is reported as KNOWN-FINDING.",
        "level_note": "Theorems about Sync.lean / Unsync.lean; tie = differential runs + metamorphic runs on the implementation. The unsync contains_key clause is proved only in the partial form named above because the code violates the full one (D9, recorded not repaired).",
    },
    "C02": {
        "lean_modules": ["MiniMoka.Props.C02", "MiniMoka.Props.C02Refines", "MiniMoka.Props.C02ConcS", "MiniMoka.Props.ConcF", "MiniMoka.Props.C02ConcF", "MiniMoka.Props.ConcV", "MiniMoka.Props.ConcG"],
        "theorems": ["MiniMoka.Props.ConcG_get_fresh", "MiniMoka.Props.ConcG_get_fresh_guarded", "MiniMoka.Props.ConcG_counterexample_split", "MiniMoka.Props.ConcG_split_uninterrupted",
                     "MiniMoka.Props.ConcV_invalidation_permanent", "MiniMoka.Props.ConcV_counterexample_D12",
                     "MiniMoka.Props.ConcF_refines_R", "MiniMoka.Props.C02_for_ConcF_read_from", "MiniMoka.Props.C02_for_ConcF_not_superseded", "MiniMoka.Props.C02_for_ConcF_final",
                     "MiniMoka.Props.ConcF_maintenance_only_deletes",
                     "MiniMoka.Props.ConcS_refines_R", "MiniMoka.Props.C02_for_ConcS_read_from", "MiniMoka.Props.C02_for_ConcS_not_superseded", "MiniMoka.Props.C02_for_ConcS_final",
                     "MiniMoka.Props.Sync_step_refines_R", "MiniMoka.Props.Sync_history_refines_R", "MiniMoka.Props.Sync_history_WF",
                     "MiniMoka.ConcR.C02_read_from", "MiniMoka.ConcR.C02_not_superseded",
                     "MiniMoka.ConcR.C02_monotone", "MiniMoka.ConcR.C02_final", "MiniMoka.ConcR.C07_reader",
                     "MiniMoka.ConcR.acceptR_sound", "MiniMoka.ConcR.acceptR_complete"],
        "components": [("conc", ["accept+quiet"], 400, 0), ("sync", ["churn", "burst", "mixed"], 25, 50)],
        "projection": "lookups",
        "oracle": "C01",
        "audit_kinds": ["map_write", "map_read", "channel"],
        "corpus": ["C02", "D12"],
        "assumptions": COMMON_ASSUME + ["DashMap entry/get/remove/remove_if are atomic per key and the memory ordering of the atomics is as intended (trusted)", "real OS schedules are sampled by uncontrolled stress, not enumerated: exhaustive schedule exploration is a different technique"],
        "level_text": "Proved for the abstract model R of per-key atomic map steps (every public call = invoke, one atomic map step, response; maintenance may delete any key at any time), for ALL interleavings, any number of threads and operations: a get returning v read an insert(k,v) with no write of k in between, hence never a value superseded by an operation that completed before the get began (C02_read_from, C02_not_superseded); values of one writer never go backwards for a reader (C02_monotone); at the end each key holds nothing or the last value written (C02_final). The step from R to OS threads, DashMap and crossbeam is not proved: 2-4 real threads x 1-6 ops on 1-3 keys are recorded with invoke/response stamps and each history is judged by an acceptor proved sound and complete for R (acceptR_sound, acceptR_complete). That the detailed model's operations are R fragments is proved: every insert / invalidate / get of Sync.lean is `invoke, one map step on its key, deletions by maintenance (daemon events), respond` and every other operation changes the map by deletions only or not at all (Sync_step_refines_R); every single-thread history of Sync.lean is an execution R accepts, with the same responses (Sync_history_refines_R, Sync_history_WF), so the C02 theorems apply to it. The same for the many-thread model ConcS.lean (any number of threads, calls split into map step / maintenance run / enqueue, freely interleaved): every execution projects to an execution R accepts with the same responses (ConcS_refines_R), hence in every such interleaving a get that returns v read an insert(k, v) with no write of k between the two map steps, is never superseded by an operation that completed before it began, and the final map holds the last write (C02_for_ConcS_read_from / _not_superseded / _final); likewise for the finest model ConcF.lean, in which every map access of a maintenance run is its own step (ConcF_refines_R, C02_for_ConcF_*). Racing invalidate_all calls (two steps each: clock reading, store) are modelled in ConcV.lean: ConcV_invalidation_permanent for the repaired store, ConcV_counterexample_D12 for the old one (defect D12, found in this work and repaired). That a lookup (fetch the entry, test its timestamps, clone the value) is atomic with respect to updates of the same key — the shard guard is held across all three — is the granularity assumption of the detailed models; ConcG.lean states it as a model: with the lookup atomic, or split but with updates excluded in between (the guard), no value discarded by an invalidate_all that completed before the get began, and none past its time-to-live, is ever returned, for all interleavings (ConcG_get_fresh, ConcG_get_fresh_guarded); with the guard released between fetch and test — the seeded changes C02e/C05f — a racing update that refreshes the shared timestamps revives it (ConcG_counterexample_split).",
        "level_note": "Theorems about ConcR.lean. Tie: map-site audit (every DashMap call site), recorded real-thread histories accepted by the verified acceptor, quiescent counters.",
    },
    "C07": {
        "lean_modules": ["MiniMoka.Props.C07", "MiniMoka.Props.C02", "MiniMoka.Props.ConcSLookup", "MiniMoka.Props.ConcFLookup", "MiniMoka.Props.ConcV"],
        "theorems": ["MiniMoka.Props.ConcV_invalidation_permanent", "MiniMoka.Props.ConcV_invalidation_permanent_later", "MiniMoka.Props.ConcV_watermark_monotone", "MiniMoka.Props.ConcV_completed_below_watermark", "MiniMoka.Props.ConcV_counterexample_D12", "MiniMoka.Props.ConcV_justifies_Sync_invalidateAll",
                     "MiniMoka.Props.ConcF_C07",
                     "MiniMoka.Props.ConcS_C07",
                     "MiniMoka.Props.C07_unsync", "MiniMoka.Props.C07_sync",
                     "MiniMoka.Props.C07_precise_invalidate_entries_if", "MiniMoka.Props.C07_precise_invalidate",
                     "MiniMoka.Props.C07_precise_invalidate_all", "MiniMoka.Props.C07_precise_sync_invalidate_all",
                     "MiniMoka.ConcR.C07_reader"],
        "components": [("unsync", ["churn", "mixed", "boundary", "synced"], 30, 50),
                       ("sync", ["churn", "mixed", "boundary", "synced", "burst"], 30, 50),
                       ("unsync", ["churn:none", "mixed:large"], 15, 50), ("sync", ["churn:none", "mixed:large"], 15, 50)],
        "projection": "state",
        "oracle": "C07+C03",
        "audit_kinds": ["map_write", "time_write", "time_check"],
        "corpus": ["C07", "D6b", "D7", "D12"],
        "assumptions": COMMON_ASSUME,
        "level_text": "Immediate and permanent: proved for both caches, every history, every placement of the three invalidation calls incl. while inserts/reads of the same keys are queued (C07_unsync, C07_sync: a yielded key is never one whose latest insert was invalidated; concurrent invalidate_all = strictly earlier clock reading). Precise: on the single-threaded cache invalidate_entries_if removes exactly the matching entries, invalidate(k) exactly k (beyond the purge every operation starts with), invalidate_all everything (theorems on the model functions); on the concurrent cache invalidate_all changes only the watermark and keeps observable what was written at the same or a later reading. That later inserts and re-inserted keys stay retrievable is C03's oracle (no spurious loss) and is judged on every implementation trace here as well. Readers against an invalidating thread under all interleavings: ConcR.C07_reader (model R), and on the detailed many-thread model ConcS.lean, operations ordered by their map steps: ConcS_C07, ConcF_C07. invalidate_all itself is two steps in the code (read the clock, store the reading); the model ConcV.lean interleaves them with other threads' inserts, clock steps and invalidate_all calls: with the repaired monotone store the watermark never moves backwards and nothing a completed invalidate_all discarded becomes visible again (ConcV_watermark_monotone, ConcV_completed_below_watermark, ConcV_invalidation_permanent, ConcV_invalidation_permanent_later); with the old plain store the interleaving of defect D12 revives an invalidated entry (ConcV_counterexample_D12); the atomic step of Sync/ConcS is the interference-free special case (ConcV_justifies_Sync_invalidateAll).",
        "level_note": "Oracle = reference bookkeeping (dead after the call) on every lookup + exact resident-set comparison around invalidate_all / invalidate_entries_if snapshots on the single-threaded cache.",
    },
    "C16": {
        "lean_modules": ["MiniMoka.Props.C16", "MiniMoka.Props.C16Conc", "MiniMoka.Props.ConcSI"],
        "theorems": ["MiniMoka.Props.ConcSI_no_duplicates", "MiniMoka.Props.ConcSI_value_was_current", "MiniMoka.Props.ConcSI_resident_yielded_once", "MiniMoka.Props.ConcSI_no_phantom", "MiniMoka.Props.ConcSI_sequential",
                     "MiniMoka.Props.C16_unsync_exact", "MiniMoka.Props.C16_sync_exact",
                     "MiniMoka.Props.C16_unsync_oracle", "MiniMoka.Props.C16_sync_oracle",
                     "MiniMoka.ConcI.C16_no_duplicates", "MiniMoka.ConcI.C16_resident_yielded_once",
                     "MiniMoka.ConcI.C16_value_was_current", "MiniMoka.ConcI.C16_no_phantom",
                     "MiniMoka.ConcI.C16_sequential"],
        "components": [("unsync", ["mixed", "boundary", "churn", "synced"], 30, 50),
                       ("sync", ["mixed", "boundary", "churn", "synced", "burst"], 30, 50),
                       ("unsync", ["batch"], 6, 30), ("sync", ["batch"], 6, 30), ("iterw", ["iter"], 12, 0)],
        "projection": "lookups",
        "oracle": "C16",
        "audit_kinds": ["map_read", "time_check", "iter_shape"],
        "corpus": ["C16"],
        "assumptions": COMMON_ASSUME + ["DashMap iterates shard by shard under that shard's read lock and a key never changes shard (trusted; stated as the shard-snapshot assumption of model I)"],
        "level_text": "Sequential: proved for every reachable state of both caches that iteration yields no key twice and yields (k,v) exactly when k is resident with current value v, unexpired and not hidden by an invalidate_all watermark (C16_unsync_exact, C16_sync_exact), and that every yielded pair is the latest, un-invalidated value (oracle theorems). Beside writers: proved on the abstract sharded-map model I for all interleavings (no key twice, keys resident throughout exactly once, every yielded value current at the visit of its shard, no phantom). On the detailed many-thread model (ConcSI.lean = ConcS.lean plus iterators that visit the shards in order, one atomic shard visit at a time, other threads stepping in between; shard function arbitrary): no key twice, every yielded pair was the map's unexpired, un-hidden binding at the visit of its shard, a key bound to the same entry until its shard is visited is yielded exactly once, no phantom, and with no interference the result is a permutation of the sequential iteration (ConcSI_no_duplicates, _value_was_current, _resident_yielded_once, _no_phantom, _sequential). Real threads: k writers x m iterators on a fixed key set, every iteration must yield each key exactly once with a plausible value (stress, not proof).",
        "level_note": "Oracle on implementation traces: iter followed by a snapshot must equal the unexpired residents of that snapshot, without duplicates.",
    },
}

# Agreement theorems between the hand-written models and the definitions the translator
# (tools/translate_logic.py) generates from /repo/src on every run. Each property lists the
# groups it depends on in "logic"; check.py adds the modules and theorems below to its obligations.
AGREE_THEOREMS = {
    "Capacity": ["MiniMoka.Agree.unsync_hasEnoughCapacity_agrees", "MiniMoka.Agree.unsync_weightsToEvict_agrees",
                 "MiniMoka.Agree.unsync_shouldEnableSketch_agrees", "MiniMoka.Agree.unsync_tooBig_agrees",
                 "MiniMoka.Agree.sync_hasEnoughCapacity_agrees", "MiniMoka.Agree.sync_weightsToEvict_agrees",
                 "MiniMoka.Agree.sync_shouldEnableSketch_agrees", "MiniMoka.Agree.sync_tooBig_agrees"],
    "Expiry": ["MiniMoka.Agree.unsync_isExpiredEntry_agrees", "MiniMoka.Agree.unsync_expiredAt_agrees_wo",
               "MiniMoka.Agree.unsync_expiredAt_agrees_ao", "MiniMoka.Agree.sync_expiredTs_agrees_wo",
               "MiniMoka.Agree.sync_expiredTs_agrees_ao"],
    "Admit": ["MiniMoka.Agree.unsync_admitLoop_agrees", "MiniMoka.Agree.unsync_admitOrReject_agrees",
              "MiniMoka.Agree.sync_admitLoop_agrees", "MiniMoka.Agree.sync_admitOrReject_agrees"],
    "Housekeeper": ["MiniMoka.Agree.sync_shouldApply_agrees"],
    "Stamps": ["MiniMoka.Agree.concT_write_agrees", "MiniMoka.Agree.set_last_accessed_agrees", "MiniMoka.Agree.concT_invAll_agrees", "MiniMoka.Agree.concV_storeVa_agrees", "MiniMoka.Agree.advance_to_agrees"],
    "Counters": ["MiniMoka.Agree.unsync_invalidate_counters_agrees", "MiniMoka.Agree.unsync_invalidateAll_counters_agrees", "MiniMoka.Agree.unsync_invalidateKeys_agrees", "MiniMoka.Agree.unsync_invalidateEntriesIf_counters_agrees", "MiniMoka.Agree.unsync_handleInsert_counters_agrees", "MiniMoka.Agree.unsync_removeVictims_agrees", "MiniMoka.Agree.unsync_admitOrReject_counters_agrees", "MiniMoka.Agree.unsync_handleUpdate_counters_agrees", "MiniMoka.Agree.unsync_removeExpiredWo_agrees", "MiniMoka.Agree.unsync_removeExpiredAo_agrees", "MiniMoka.Agree.unsync_evictExpired_counters_agrees", "MiniMoka.Agree.unsync_evictLruLoop_counters_agrees", "MiniMoka.Agree.unsync_evictLru_counters_agrees", "MiniMoka.Agree.sync_subCounters_agrees", "MiniMoka.Agree.sync_addCounters_agrees", "MiniMoka.Agree.sync_applyUpdate_counters_agrees", "MiniMoka.Agree.sync_handleAdmit_counters_agrees", "MiniMoka.Agree.sync_handleRemove_counters_agrees", "MiniMoka.Agree.sync_handleRemove_deq_counters_agrees", "MiniMoka.Agree.sync_evictLruLoop_counters_agrees"],
    "Enable": ["MiniMoka.Agree.hasExpiry_agrees", "MiniMoka.Agree.unsync_evictExpiredIfNeeded_agrees",
               "MiniMoka.Agree.sync_syncRun_agrees", "MiniMoka.Agree.sync_writeOrder_agrees",
               "MiniMoka.Agree.default_weight_agrees"],
    "Identity": ["MiniMoka.Agree.sync_removeExpiredAo_victim_agrees", "MiniMoka.Agree.sync_removeExpiredWo_victim_agrees",
                 "MiniMoka.Agree.sync_evictLru_victim_agrees"],
    "Lookup": ["MiniMoka.Agree.unsync_lookup_filter_agrees", "MiniMoka.Agree.sync_lookup_filter_agrees",
               "MiniMoka.Agree.sync_read_moves_timer_agrees", "MiniMoka.Agree.sync_applyRead_agrees"],
    "Loops": ["MiniMoka.Agree.unsync_evictLruLoop_agrees", "MiniMoka.Agree.sync_evictLruLoop_stop_agrees",
              "MiniMoka.Agree.sync_evict_stop_iff", "MiniMoka.Agree.sync_loop_fuel_agrees",
              "MiniMoka.Agree.sync_syncLoop_agrees", "MiniMoka.Agree.sync_evict_needed_agrees"],
    "SketchArith": ["MiniMoka.Agree.sketchCapacity_agrees", "MiniMoka.Agree.indexOf_agrees",
                    "MiniMoka.Agree.start_agrees", "MiniMoka.Agree.reset_agrees", "MiniMoka.Agree.age_now_agrees",
                    "MiniMoka.Agree.ensureCapacity_agrees"],
    "SketchBits": ["MiniMoka.Agree.counter_of_word_agrees", "MiniMoka.Agree.inc_room_agrees",
                   "MiniMoka.Agree.inc_delta_agrees", "MiniMoka.Agree.odd_counters_agrees",
                   "MiniMoka.Agree.halved_word_agrees"],
    "Config": ["MiniMoka.Agree.maxDuration_agrees", "MiniMoka.Agree.tooLong_agrees_ttl",
               "MiniMoka.Agree.tooLong_agrees_tti"],
}

LOGIC = {"C01": ["Expiry", "Lookup", "Identity", "Stamps"], "C02": ["Identity", "Stamps"], "C03": ["Capacity", "Expiry", "Lookup", "Counters"], "C04": ["Capacity", "Loops", "Counters"], "C05": ["Expiry", "Lookup", "Enable", "Stamps"], "C06": ["Expiry", "Lookup", "Enable", "Stamps"],
         "C07": ["Expiry", "Lookup", "Stamps"], "C08": ["SketchArith", "SketchBits", "Identity"], "C10": ["Identity", "Counters"], "C11": ["Identity"], "C09": ["Housekeeper", "Loops"], "C12": ["Capacity", "Admit", "Loops"],
         "C13": ["Capacity", "Admit", "SketchBits"], "C14": ["SketchArith", "SketchBits"], "C16": ["Expiry", "Lookup"], "C17": ["Config", "Capacity", "Enable"]}
for _k, _v in LOGIC.items():
    PROPS[_k]["logic"] = _v

# properties whose theorems lean on the statement order of the concurrent cache's functions
for _k in ("C01", "C02", "C03", "C04", "C08", "C10", "C11"):
    PROPS[_k]["audit_kinds"] = list(PROPS[_k]["audit_kinds"]) + ["op_order"]
# properties that lean on how long a map guard / the deques lock is held (per-key atomicity of a
# lookup together with its expiry test; counters published under the lock)
for _k in ("C01", "C02", "C05", "C06", "C07", "C08", "C10"):
    if "lock_order" not in PROPS[_k]["audit_kinds"]:
        PROPS[_k]["audit_kinds"] = list(PROPS[_k]["audit_kinds"]) + ["lock_order"]

# Thorough tier only: the real code paths under Miri (supporting validation, never a proof):
# dereference of freed nodes, invalid raw-pointer use and leaks that a debug build passes silently.
MIRI = [("miri-unsync", ["mixed", "churn", "oversize"], 25, 40), ("miri-sync", ["mixed", "churn", "oversize", "burst"], 25, 40),
        ("miri-deque", ["all"], 20, 120),
        # interleavings of logical threads (phase-split hooks, injected sub-step map steps) under Miri
        ("miri-concs", ["mixed", "churn"], 20, 50), ("miri-inject", ["mixed", "oversize"], 20, 40)]
# Interleavings of 2-4 logical threads replayed deterministically on the real code through the
# phase-split hooks and on the many-thread model ConcS.lean (full white-box state after every event).
CONCS = ("concs", ["mixed", "churn", "growth", "oversize", "boundary", "burst"], 20, 70)
for _k in ("C01", "C02", "C04", "C05", "C06", "C07", "C08", "C10", "C11"):
    PROPS[_k]["components"] = list(PROPS[_k]["components"]) + [CONCS]
MIRI_CONC = [("miri-conc", ["accept+quiet"] * 6, 40, 0)]
# Sub-step interleavings without a scheduler: while a maintenance run is in progress, other logical
# threads take map steps at the user-callback points of the cache (the weigher inside handle_upsert,
# the hashing of a key before a map access). Implementation only, judged by the oracles.
INJECT = ("inject", ["mixed", "churn", "growth", "oversize", "scan"], 60, 50)
for _k in ("C01", "C02", "C03", "C04", "C07", "C08", "C10", "C11"):
    PROPS[_k]["components"] = list(PROPS[_k]["components"]) + [INJECT]
# model T on the implementation (round 10): scripted whole-call updates overtaken at their clock reading by
# another logical thread's later update (inject component, profile stamp), judged by the run-time form of
# ConcT_run_fresh (Python oracle "T") beside the C05 oracle
PROPS["C05"]["components"] = list(PROPS["C05"]["components"]) + [("inject", ["stamp"], 40, 30)]
PROPS["C05"]["oracle"] = "C05+T"
PROPS["C01"]["components"] = list(PROPS["C01"]["components"]) + [("inject", ["stamp"], 40, 30)]
PROPS["C01"]["oracle"] = "C01+T"
# Tight real-thread loops with an online oracle (harness `hammer`): watermark = a completed
# invalidate_all is never undone for a later get; mono = completed inserts are never superseded
# backwards for a reader; syncs = explicit sync() beside the writers' own housekeeping: no panic, exact
# counters at quiescence; drops = instrumented keys/values under threads: live objects = resident entries at
# quiescence, none after the cache is dropped.
PROPS["C02"]["components"] = list(PROPS["C02"]["components"]) + [("hammer", ["watermark+mono"], 8, 0)]
PROPS["C07"]["components"] = list(PROPS["C07"]["components"]) + [("hammer", ["watermark"], 6, 0)]
# (the same lookup path decides all three kinds of staleness: time-to-live, time-to-idle, watermark)
PROPS["C05"]["components"] = list(PROPS["C05"]["components"]) + [("hammer", ["watermark"], 6, 0)]
PROPS["C06"]["components"] = list(PROPS["C06"]["components"]) + [("hammer", ["watermark"], 6, 0)]
PROPS["C01"]["components"] = list(PROPS["C01"]["components"]) + [("hammer", ["watermark+mono+revive"], 8, 0)]
PROPS["C08"]["components"] = list(PROPS["C08"]["components"]) + [("hammer", ["syncs+racing"], 10, 0)]
PROPS["C04"]["components"] = list(PROPS["C04"]["components"]) + [("hammer", ["syncs+racing"], 10, 0)]
# (syncs also ends with every thread having returned: an explicit sync() beside the writers' housekeeping must
# not leave the maintenance flag or a lock behind)
PROPS["C09"]["components"] = list(PROPS["C09"]["components"]) + [("hammer", ["syncs"], 10, 0)]
PROPS["C10"]["components"] = list(PROPS["C10"]["components"]) + [("hammer", ["syncs+racing"], 12, 0)]
PROPS["C11"]["components"] = list(PROPS["C11"]["components"]) + [("hammer", ["drops"], 8, 0)]
# revive = one thread invalidates everything and re-inserts a few keys, the others only sync(): every key is
# there again, in lookups and in an iteration, with the value just written
PROPS["C03"]["components"] = list(PROPS["C03"]["components"]) + [("hammer", ["revive"], 10, 0)]
PROPS["C16"]["components"] = list(PROPS["C16"]["components"]) + [("hammer", ["revive"], 10, 0)]
# a hit recorded just before the idle deadline and applied only after the original deadline has passed
for _k in ("C01", "C03", "C06", "C07"):
    PROPS[_k]["components"] = list(PROPS[_k]["components"]) + [("sync", ["lateread"], 20, 30), ("unsync", ["lateread"], 8, 30)]
# the sketch of a weighted cache over more than one aging period / past its first sizing
# round 9: a key written twice with different weights before its first write is applied, then a fill
# with fresh unit keys up to the real room (seeded change C03i)
for _k in ("C03", "C04", "C10"):
    PROPS[_k]["components"] = list(PROPS[_k]["components"]) + [("sync", ["overfill"], 10, 40), ("unsync", ["overfill"], 4, 40)]
# the dangling-node windows (skipped nodes of the victim scan) also under memory safety, drops and LRU order
for _k in ("C08", "C11", "C12"):
    PROPS[_k]["components"] = list(PROPS[_k]["components"]) + [("sync", ["dangling"], 6, 40)]
PROPS["C13"]["components"] = list(PROPS["C13"]["components"]) + [("unsync", ["regrow"], 8, 40), ("sync", ["regrow"], 8, 40)]
PROPS["C14"]["components"] = list(PROPS["C14"]["components"]) + [("unsync", ["regrow", "aging"], 4, 40), ("sync", ["regrow", "aging"], 4, 40)]
PROPS["C17"]["components"] = list(PROPS["C17"]["components"]) + [("unsync", ["aging"], 6, 40), ("sync", ["aging"], 6, 40)]
PROPS["C08"]["thorough_components"] = MIRI + MIRI_CONC
PROPS["C02"]["thorough_components"] = MIRI_CONC
PROPS["C11"]["thorough_components"] = MIRI[:2] + MIRI[3:]
