"""Per-property configuration of the checks (see DESIGN.md §5)."""

ALL = ["mixed", "burst", "synced", "boundary", "churn", "growth", "scan", "big"]
SMALL = ["mixed", "burst", "synced", "boundary", "churn", "growth", "scan"]

COMMON_ASSUME = [
    "Lean 4.33 kernel; axioms propext, Classical.choice, Quot.sound only",
    "hand-written model agrees with /repo outside the sampled histories and audited sites (not checked there)",
    "std HashMap / DashMap / crossbeam channels / Rc, Arc, TrioArc modelled as finite maps, FIFO lists and reference counts",
    "sketch table below 2^28 slots (documented limit of the u32 `count` in FrequencySketch::reset)",
]

PROPS = {
    "C10": {
        "lean_modules": ["MiniMoka.Props.C10"],
        "theorems": ["MiniMoka.Props.C10_unsync",
                     "MiniMoka.Props.C10_unsync_counterexample_D1",
                     "MiniMoka.Props.C10_unsync_counterexample_D2",
                     "MiniMoka.Props.C10_unsync_counterexample_D3",
                     "MiniMoka.Props.C10_unsync_counterexample_D4"],
        "components": [("unsync", SMALL, 40, 50), ("unsync", ["big"], 6, 40),
                       ("sync", SMALL, 40, 50), ("sync", ["big"], 6, 40)],
        "projection": "counters",
        "oracle": "C10",
        "audit_kinds": ["map_write", "counter", "flag_write"],
        "corpus": ["C10", "D1", "D2", "D3", "D4", "D7", "D8"],
        "assumptions": COMMON_ASSUME,
        "level_text": "Unsync: proved for every configuration, hash function, weigher and history (theorem C10_unsync: every snapshot after any operation has entry_count = |map| and weighted_size = sum of weights; by the inductive invariant InvU over all operations). Sync: decided by the oracle on implementation traces and by model/implementation agreement on the counters at quiescent points; the sequential-sync theorem is in progress. Concurrent schedules: stress snapshots only.",
        "level_note": "Theorem is about the Lean model Unsync.lean; tie = white-box differential runs (counters and map compared after every op) + counter/map-write site audit. Sketch table < 2^28 slots assumed. Four machine-checked counterexamples keep the repaired defects D1-D4 visible.",
    },
}
