#!/bin/bash
# usage: try_mutant.sh <patch.diff> <Cxx> [Cyy ...]  — applies the patch to /repo, runs the checks, reverts.
patch="$1"; shift
cd /repo && git apply "$patch" || { echo "patch does not apply"; exit 2; }
cd /verif
for p in "$@"; do
  out=$(python3 tools/check.py "$p" 2>&1); rc=$?
  echo "== $p rc=$rc"; echo "$out" | grep -E "VIOLATION|KNOWN|\[$p\]" | head -4
done
git -C /repo checkout -- . ; git -C /repo status --short | head -3
