#!/bin/bash
# Re-confirms every seeded change against /repo's current HEAD in a scratch worktree
# (suite passes with the patch, demo fails with it, demo passes without it).
set -u
WT=/tmp/reseed_wt
for d in /verif/seeded/*/; do
  id=$(basename "$d")
  [ -n "${1:-}" ] && [ "$1" != "$id" ] && continue
  rm -rf $WT; git -C /repo worktree prune
  git -C /repo worktree add -q --detach $WT HEAD || exit 2
  mkdir -p $WT/mutation && cp "$d"/* $WT/mutation/
  python3 - "$WT" <<'PY'
import json,sys,os
wt=sys.argv[1]
p=os.path.join(wt,'mutation','meta.json'); m=json.load(open(p)); m.pop('confirmed_by_me',None)
m['reconfirmed_on']=os.popen('git -C /repo rev-parse --short HEAD').read().strip()
json.dump(m,open(p,'w'),indent=1)
PY
  (cd $WT && python3 /verif/tools/confirm_seed.py $WT "$id" 2>&1 | tail -1)
  git -C /repo worktree remove --force $WT
done
git -C /repo worktree prune
