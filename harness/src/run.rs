//! Executes operation lines against the real caches and prints one trace line per op.

use crate::types::*;
use mini_moka::sync::{Cache as SCache, ConcurrentCacheExt};
use mini_moka::unsync::Cache as UCache;
use mini_moka::verif::{
    AoNodeSnap, EntrySnap, SketchSnap, SyncSnap, UnsyncSnap, VerifClock, WoNodeSnap,
};
use std::io::{BufRead, Write};
use std::panic::{catch_unwind, AssertUnwindSafe};
use std::time::Duration;

#[derive(Clone, Debug)]
pub struct Cfg {
    pub kind: String,
    pub cap: Option<u64>,
    pub weigher: WeigherKind,
    pub ttl: Option<u128>,
    pub tti: Option<u128>,
    pub hash: HashKind,
    pub initcap: Option<usize>,
    pub ctor_new: bool,
    /// kind=inject: one callback point in `irate` lets another logical thread take a map step
    pub irate: u64,
    pub iseed: u64,
    pub ikeys: u64,
    /// kind=inject: scripted inserts may be overtaken at their clock reading (model T motif)
    pub istamp: bool,
}

fn parse_opt<T: std::str::FromStr>(s: &str) -> Option<Option<T>> {
    if s == "none" || s == "-" {
        Some(None)
    } else {
        s.parse().ok().map(Some)
    }
}

pub fn parse_cfg(line: &str) -> Option<Cfg> {
    let mut c = Cfg {
        kind: "unsync".into(),
        cap: None,
        weigher: WeigherKind::None,
        ttl: None,
        tti: None,
        hash: HashKind::Id,
        initcap: None,
        ctor_new: false,
        irate: 3,
        iseed: 1,
        ikeys: 3,
        istamp: false,
    };
    let mut it = line.split_whitespace();
    if it.next()? != "cfg" {
        return None;
    }
    for f in it {
        let (k, v) = f.split_once('=')?;
        match k {
            "kind" => c.kind = v.to_string(),
            "cap" => c.cap = parse_opt(v)?,
            "w" => c.weigher = WeigherKind::parse(v)?,
            "ttl" => c.ttl = parse_opt(v)?,
            "tti" => c.tti = parse_opt(v)?,
            "hash" => c.hash = HashKind::parse(v)?,
            "initcap" => c.initcap = parse_opt(v)?,
            "ctor" => c.ctor_new = v == "new",
            "irate" => c.irate = v.parse().ok()?,
            "iseed" | "seed" => c.iseed = v.parse().unwrap_or(1),
            "ikeys" => c.ikeys = v.parse().ok()?,
            "istamp" => c.istamp = v == "1",
            _ => {}
        }
    }
    Some(c)
}

fn dur(ns: u128) -> Duration {
    Duration::new((ns / 1_000_000_000) as u64, (ns % 1_000_000_000) as u32)
}

pub fn classify_panic(msg: &str) -> &'static str {
    if msg.contains("with overflow") {
        "overflow"
    } else if msg.contains("unreachable") {
        "unreachable"
    } else if msg.contains("not a member") {
        "notmember"
    } else if msg.contains("time_to_live is longer") {
        "builder-ttl"
    } else if msg.contains("time_to_idle is longer") {
        "builder-tti"
    } else if msg.contains("ttl overflow") || msg.contains("Timestamp overflow") {
        "ttl-overflow"
    } else if msg.contains("Cannot ")
        || msg.contains("called `Option::unwrap()`")
        || msg.contains("Failed to")
        || msg.contains("lock poisoned")
    {
        "expect"
    } else if msg.contains("assertion") {
        "assert"
    } else {
        "other"
    }
}

fn panic_msg(e: Box<dyn std::any::Any + Send>) -> String {
    if let Some(s) = e.downcast_ref::<&str>() {
        s.to_string()
    } else if let Some(s) = e.downcast_ref::<String>() {
        s.clone()
    } else {
        "unknown".into()
    }
}

fn opt(o: Option<u64>) -> String {
    match o {
        Some(n) => n.to_string(),
        None => "-".into(),
    }
}

fn render_sketch(s: &SketchSnap) -> String {
    format!(
        "skt={},{},{},{},{:016x}",
        if s.enabled { "on" } else { "off" },
        s.size,
        s.sample_size,
        s.table.len(),
        fnv_words(&s.table)
    )
}

struct Common<'a> {
    entries: &'a [EntrySnap<VKey, VVal>],
    probation: &'a [AoNodeSnap<VKey>],
    write_order: &'a [WoNodeSnap<VKey>],
    sync: bool,
}

fn render_lists(c: &Common) -> (String, String, String) {
    let mut es: Vec<&EntrySnap<VKey, VVal>> = c.entries.iter().collect();
    es.sort_by_key(|e| e.key.0);
    let map = es
        .iter()
        .map(|e| {
            let ao_ok = match e.ao_node {
                Some(a) => c
                    .probation
                    .iter()
                    .any(|n| n.addr == a && n.key.0 == e.key.0),
                None => false,
            };
            let wo_ok = match e.wo_node {
                Some(a) => c
                    .write_order
                    .iter()
                    .any(|n| n.addr == a && n.key.0 == e.key.0),
                None => true,
            };
            format!(
                "{}:{}:{}:{}:{}:{}{}{}{}",
                e.key.0,
                e.value.0,
                e.weight,
                opt(e.last_accessed),
                opt(e.last_modified),
                if ao_ok { "a" } else { "-" },
                if wo_ok { "w" } else { "-" },
                if e.admitted { "A" } else { "-" },
                if e.dirty { "D" } else { "-" }
            )
        })
        .collect::<Vec<_>>()
        .join(",");
    let prob = c
        .probation
        .iter()
        .map(|n| {
            let current = c.entries.iter().any(|e| {
                e.key.0 == n.key.0
                    && if c.sync {
                        e.info == n.info
                    } else {
                        e.ao_node == Some(n.addr)
                    }
            });
            format!("{}@{}{}", n.key.0, opt(n.ts), if current { "" } else { "!" })
        })
        .collect::<Vec<_>>()
        .join(",");
    let wo = c
        .write_order
        .iter()
        .map(|n| {
            let current = c.entries.iter().any(|e| {
                e.key.0 == n.key.0
                    && if c.sync {
                        e.info == n.info
                    } else {
                        e.wo_node == Some(n.addr)
                    }
            });
            format!("{}@{}{}", n.key.0, opt(n.ts), if current { "" } else { "!" })
        })
        .collect::<Vec<_>>()
        .join(",");
    (map, prob, wo)
}

fn render_unsync_snap(s: &UnsyncSnap<VKey, VVal>, now: u64, freqs: String, live: String) -> String {
    if let Some(e) = &s.structure_error {
        return format!("snap structure-error {}", e);
    }
    if !s.window.is_empty() || !s.protected.is_empty() {
        return "snap structure-error window/protected not empty".into();
    }
    let (map, prob, wo) = render_lists(&Common {
        entries: &s.entries,
        probation: &s.probation,
        write_order: &s.write_order,
        sync: false,
    });
    format!(
        "snap ec={} ws={} now={} va=- rq=0 wq=0 hk=0,0 map={} prob={} wo={} {} freq={} live={}",
        s.entry_count,
        s.weighted_size,
        now,
        map,
        prob,
        wo,
        render_sketch(&s.sketch),
        freqs,
        live
    )
}

fn render_sync_snap(s: &SyncSnap<VKey, VVal>, now: u64, freqs: String, live: String) -> String {
    if let Some(e) = &s.structure_error {
        return format!("snap structure-error {}", e);
    }
    if !s.window.is_empty() || !s.protected.is_empty() {
        return "snap structure-error window/protected not empty".into();
    }
    let (map, prob, wo) = render_lists(&Common {
        entries: &s.entries,
        probation: &s.probation,
        write_order: &s.write_order,
        sync: true,
    });
    format!(
        "snap ec={} ws={} now={} va={} rq={} wq={} hk={},{} map={} prob={} wo={} {} freq={} live={}",
        s.entry_count,
        s.weighted_size,
        now,
        opt(s.valid_after),
        s.read_q_len,
        s.write_q_len,
        if s.hk_running { 1 } else { 0 },
        s.hk_sync_after.unwrap_or(0),
        map,
        prob,
        wo,
        render_sketch(&s.sketch),
        freqs,
        live
    )
}

pub enum Live {
    Unsync(Box<UCache<VKey, VVal, VBuildHasher>>, VerifClock),
    Sync(SCache<VKey, VVal, VBuildHasher>, VerifClock),
    UnsyncNew(Box<UCache<VKey, VVal>>, VerifClock),
    SyncNew(SCache<VKey, VVal>, VerifClock),
    Facade(crate::facade::Facade),
}

pub fn build(cfg: &Cfg) -> Result<Live, String> {
    let hasher = VBuildHasher(cfg.hash);
    let wk = cfg.weigher;
    let clock = VerifClock::new();
    let r = catch_unwind(AssertUnwindSafe(|| match cfg.kind.as_str() {
        "unsync" if cfg.ctor_new => {
            let mut c = UCache::<VKey, VVal>::new(cfg.cap.unwrap_or(0));
            c.verif_set_clock(&clock);
            Ok(Live::UnsyncNew(Box::new(c), clock))
        }
        "sync" if cfg.ctor_new => {
            let c = SCache::<VKey, VVal>::new(cfg.cap.unwrap_or(0));
            c.verif_set_clock(&clock);
            Ok(Live::SyncNew(c, clock))
        }
        "unsync" => {
            let mut b = UCache::<VKey, VVal>::builder();
            if let Some(c) = cfg.cap {
                b = b.max_capacity(c);
            }
            if let Some(i) = cfg.initcap {
                b = b.initial_capacity(i);
            }
            if wk != WeigherKind::None {
                b = b.weigher(move |k: &VKey, v: &VVal| wk.weigh(k.0, v.0));
            }
            if let Some(t) = cfg.ttl {
                b = b.time_to_live(dur(t));
            }
            if let Some(t) = cfg.tti {
                b = b.time_to_idle(dur(t));
            }
            let mut c = b.build_with_hasher(hasher);
            c.verif_set_clock(&clock);
            Ok(Live::Unsync(Box::new(c), clock))
        }
        "concs" | "inject" if !phase::AVAILABLE => Err("phase-hooks-unavailable".to_string()),
        "sync" | "concs" | "inject" => {
            let inject = cfg.kind == "inject";
            let mut b = SCache::<VKey, VVal>::builder();
            if let Some(c) = cfg.cap {
                b = b.max_capacity(c);
            }
            if let Some(i) = cfg.initcap {
                b = b.initial_capacity(i);
            }
            if inject {
                // the weigher is a callback point inside maintenance (`handle_upsert`)
                b = b.weigher(move |k: &VKey, v: &VVal| {
                    inject_point();
                    if wk == WeigherKind::None { 1 } else { wk.weigh(k.0, v.0) }
                });
            } else if wk != WeigherKind::None {
                b = b.weigher(move |k: &VKey, v: &VVal| wk.weigh(k.0, v.0));
            }
            if let Some(t) = cfg.ttl {
                b = b.time_to_live(dur(t));
            }
            if let Some(t) = cfg.tti {
                b = b.time_to_idle(dur(t));
            }
            let c = b.build_with_hasher(hasher);
            c.verif_set_clock(&clock);
            if inject {
                INJ.with(|i| {
                    *i.borrow_mut() = Some(Inj {
                        rng: Rng::new(cfg.iseed ^ 0x9e3779b97f4a7c15),
                        rate: cfg.irate.max(1),
                        nkeys: cfg.ikeys.max(1),
                        in_maint: false,
                        in_call: false,
                        busy: false,
                        pub_calls: 0,
                        in_invall: false,
                        in_ins: None,
                        stamp: cfg.istamp,
                        clock: clock.clone(),
                        out: Vec::new(),
                        cache: c.clone(),
                    })
                });
                INJECT_HOOK.with(|h| h.set(Some(injected_step)));
                mini_moka::verif::set_clock_read_hook(Some(injected_at_clock_read));
            }
            Ok(Live::Sync(c, clock))
        }
        "sketch" => Ok(Live::Facade(crate::facade::Facade::Sketch(
            mini_moka::verif::VerifSketch::new(),
        ))),
        "deque" => Ok(Live::Facade(crate::facade::Facade::Deque(
            mini_moka::verif::VerifDeque::new(),
        ))),
        k => Err(format!("bad kind {}", k)),
    }));
    match r {
        Ok(Ok(l)) => Ok(l),
        Ok(Err(e)) => Err(e),
        Err(p) => Err(format!("panic {}", classify_panic(&panic_msg(p)))),
    }
}

fn pred_fn(ws: &[&str]) -> Option<Box<dyn FnMut(&VKey, &VVal) -> bool>> {
    match ws {
        ["true"] => Some(Box::new(|_, _| true)),
        ["false"] => Some(Box::new(|_, _| false)),
        ["kmod", m, r] => {
            let m: u64 = m.parse().ok()?;
            let r: u64 = r.parse().ok()?;
            if m == 0 {
                // Lean: k % 0 = k
                Some(Box::new(move |k, _| k.0 == r))
            } else {
                Some(Box::new(move |k, _| k.0 % m == r))
            }
        }
        ["vlt", c] => {
            let c: u64 = c.parse().ok()?;
            Some(Box::new(move |_, v| v.0 < c))
        }
        _ => None,
    }
}

fn exec_unsync<S: std::hash::BuildHasher + Clone>(c: &mut UCache<VKey, VVal, S>, clock: &VerifClock, op: &str) -> String {
    let ws: Vec<&str> = op.split_whitespace().collect();
    let num = |i: usize| -> Option<u64> { ws.get(i).and_then(|s| s.parse().ok()) };
    // `xhas`, `xiter`, `xsnap` are `has`, `iter`, `snap` marked as *extra* calls of a
    // metamorphic pair (C15); they execute exactly like the plain ones.
    let first = ws.first().copied().map(|w| match w {
        "xhas" => "has",
        "xiter" => "iter",
        "xsnap" => "snap",
        o => o,
    });
    match first {
        Some("ins") if ws.len() == 3 => match (num(1), num(2)) {
            (Some(k), Some(v)) => {
                c.insert(VKey::new(k), VVal::new(v));
                "ok".into()
            }
            _ => "bad-op".into(),
        },
        Some("get") if ws.len() == 2 => match num(1) {
            Some(k) => {
                let key = VKey::new(k);
                match c.get(&key) {
                    Some(v) => format!("some {}", v.0),
                    None => "none".into(),
                }
            }
            None => "bad-op".into(),
        },
        Some("has") if ws.len() == 2 => match num(1) {
            Some(k) => {
                let key = VKey::new(k);
                if c.contains_key(&key) { "true".into() } else { "false".into() }
            }
            None => "bad-op".into(),
        },
        Some("iterlag") if ws.len() == 2 => match ws[1].parse::<u128>() {
            // the iterator is created, the clock moves, then the iterator is consumed: what it
            // yields must be live at the time it is yielded
            Ok(d) => {
                let it = c.iter();
                clock.advance(dur(d));
                let mut v: Vec<(u64, u64)> = it.map(|(k, v)| (k.0, v.0)).collect();
                v.sort();
                format!(
                    "iter {}",
                    v.iter().map(|(k, v)| format!("{}:{}", k, v)).collect::<Vec<_>>().join(",")
                )
            }
            Err(_) => "bad-op".into(),
        },
        Some("iter") if ws.len() == 1 => {
            let mut v: Vec<(u64, u64)> = c.iter().map(|(k, v)| (k.0, v.0)).collect();
            v.sort();
            format!(
                "iter {}",
                v.iter().map(|(k, v)| format!("{}:{}", k, v)).collect::<Vec<_>>().join(",")
            )
        }
        Some("inv") if ws.len() == 2 => match num(1) {
            Some(k) => {
                let key = VKey::new(k);
                c.invalidate(&key);
                "ok".into()
            }
            None => "bad-op".into(),
        },
        Some("live") if ws.len() == 1 => {
            // number of key / value objects alive right now (instrumented types)
            format!(
                "live k={} v={}",
                KEY_LIVE.load(std::sync::atomic::Ordering::SeqCst),
                VAL_LIVE.load(std::sync::atomic::Ordering::SeqCst)
            )
        }
        Some("policy") if ws.len() == 1 => {
            let p = c.policy();
            let d = |x: Option<Duration>| match x {
                Some(d) => d.as_nanos().to_string(),
                None => "-".to_string(),
            };
            format!(
                "policy cap={} ttl={} tti={}",
                match p.max_capacity() { Some(c) => c.to_string(), None => "-".to_string() },
                d(p.time_to_live()),
                d(p.time_to_idle())
            )
        }
        Some("invall") if ws.len() == 1 => {
            c.invalidate_all();
            "ok".into()
        }
        Some("invif") => match pred_fn(&ws[1..]) {
            Some(mut p) => {
                c.invalidate_entries_if(|k, v| p(k, v));
                "ok".into()
            }
            None => "bad-op".into(),
        },
        Some("adv") if ws.len() == 2 => match ws[1].parse::<u128>() {
            Ok(d) => {
                clock.advance(dur(d));
                "ok".into()
            }
            Err(_) => "bad-op".into(),
        },
        Some("snap") if ws.len() == 1 => {
            // live object counts first: the snapshot itself clones keys and values
            let live = format!(
                "{},{}",
                KEY_LIVE.load(std::sync::atomic::Ordering::SeqCst),
                VAL_LIVE.load(std::sync::atomic::Ordering::SeqCst)
            );
            let s = c.verif_snapshot(clock);
            let mut keys: Vec<u64> = s.entries.iter().map(|e| e.key.0).collect();
            keys.sort();
            let freqs = keys
                .iter()
                .map(|k| {
                    let key = VKey::new(*k);
                    format!("{}:{}", k, c.verif_frequency(&key))
                })
                .collect::<Vec<_>>()
                .join(",");
            // the public getters must report what the cache holds internally
            if c.entry_count() != s.entry_count || c.weighted_size() != s.weighted_size {
                return format!(
                    "snap getter-mismatch entry_count()={} weighted_size()={} internal ec={} ws={}",
                    c.entry_count(), c.weighted_size(), s.entry_count, s.weighted_size
                );
            }
            render_unsync_snap(&s, clock.now_ns(), freqs, live)
        }
        Some("freq") if ws.len() == 2 => match num(1) {
            Some(k) => {
                let key = VKey::new(k);
                format!("freq {}", c.verif_frequency(&key))
            }
            None => "bad-op".into(),
        },
        _ => "bad-op".into(),
    }
}

/// kind=inject: while a maintenance run is in progress (`maint` / `sync`), at the callback
/// points of the cache (the user's weigher inside `handle_upsert`, the hashing of a key before a
/// map access) another logical thread (ids 10..) takes a map step: a sub-step interleaving that
/// no scheduler is needed for. The steps taken are printed before the enclosing operation.
struct Inj {
    rng: Rng,
    rate: u64,
    nkeys: u64,
    in_maint: bool,
    /// reserved (injection during scripted map steps is not safe: see `pins`)
    in_call: bool,
    busy: bool,
    /// whole public calls injected during the current maintenance run (bounded: a call made
    /// inside a run cannot start housekeeping itself, so the write channel must keep room)
    pub_calls: u32,
    /// a scripted `invalidate_all` is in progress: at its clock reading (before it stores the
    /// watermark) other logical threads may run whole calls and the clock may move
    in_invall: bool,
    /// a scripted `insert(k, _)` is in progress and has not read the clock yet: at its clock
    /// reading another logical thread may advance the clock and update the same key (one shot)
    in_ins: Option<u64>,
    stamp: bool,
    clock: VerifClock,
    out: Vec<String>,
    cache: SCache<VKey, VVal, VBuildHasher>,
}

thread_local! {
    static INJ: std::cell::RefCell<Option<Inj>> = const { std::cell::RefCell::new(None) };
}

fn injected_step() {
    let act = INJ.with(|i| {
        let mut b = match i.try_borrow_mut() {
            Ok(b) => b,
            Err(_) => return None,
        };
        match b.as_mut() {
            Some(x) if x.in_maint && !x.busy => {
                if x.rng.below(x.rate) != 0 {
                    return None;
                }
                x.busy = true;
                let t = 10 + x.rng.below(6);
                let k = x.rng.below(x.nkeys);
                let v = x.rng.below(12);
                let mut kind = x.rng.below(8);
                if kind >= 4 {
                    if x.pub_calls >= 12 || !phase::AVAILABLE {
                        kind -= 4;
                    } else {
                        x.pub_calls += 1;
                    }
                }
                Some((x.cache.clone(), t, k, v, kind, x.in_call))
            }
            _ => None,
        }
    });
    if let Some((c, t, k, v, kind, whole)) = act {
        let mut lines = Vec::new();
        if kind >= 4 {
            // a whole call of the public API by another logical thread, executed while the
            // scripted thread is inside its maintenance run: its map step, a housekeeping attempt
            // that finds the run in progress and returns, and the send of its operation. This goes
            // through the glue of `insert` / `invalidate` / `get` that the phase-split hooks bypass.
            let key = VKey::new(k);
            match kind {
                4 => {
                    c.invalidate(&key);
                    lines.push(format!("inv {} -> ok", k));
                }
                6 => {
                    let r = c.get(&key);
                    lines.push(match r {
                        Some(v) => format!("get {} -> some {}", k, v.0),
                        None => format!("get {} -> none", k),
                    });
                }
                _ => {
                    c.insert(key, VVal::new(v));
                    lines.push(format!("ins {} {} -> ok", k, v));
                }
            }
        } else if !holds(t) {
            if kind == 0 {
                let key = VKey::new(k);
                match phase::invalidate_map(&c, &key) {
                    Some(p) => {
                        HELD.with(|h| h.borrow_mut().push((t, Held::Write(p))));
                        lines.push(format!("pinv {} {} -> held", t, k));
                    }
                    None => lines.push(format!("pinv {} {} -> none", t, k)),
                }
            } else {
                let p = phase::insert_map(&c, VKey::new(k), VVal::new(v));
                HELD.with(|h| h.borrow_mut().push((t, Held::Write(p))));
                lines.push(format!("pins {} {} {} -> ok", t, k, v));
            }
            if whole && holds(t) {
                // no maintenance is in progress: the injected thread completes its call and runs a
                // maintenance pass of its own before the scripted thread's map step goes on
                let held = HELD.with(|h| {
                    let mut h = h.borrow_mut();
                    let i = h.iter().position(|(x, _)| *x == t).unwrap();
                    h.remove(i).1
                });
                if let Held::Write(p) = held {
                    match phase::enqueue_write(&c, p) {
                        Ok(()) => {
                            lines.push(format!("penq {} -> ok", t));
                            c.sync();
                            lines.push("sync -> ok".to_string());
                        }
                        Err(p) => {
                            HELD.with(|h| h.borrow_mut().push((t, Held::Write(p))));
                            lines.push(format!("penq {} -> full", t));
                        }
                    }
                }
            }
        }
        INJ.with(|i| {
            if let Some(x) = i.borrow_mut().as_mut() {
                x.out.extend(lines);
                x.busy = false;
            }
        });
    }
}

#[allow(dead_code)]
fn set_in_call(on: bool) {
    INJ.with(|i| {
        if let Some(x) = i.borrow_mut().as_mut() {
            x.in_call = on;
        }
    });
}

fn set_in_maint(on: bool) {
    INJ.with(|i| {
        if let Some(x) = i.borrow_mut().as_mut() {
            if on {
                x.pub_calls = 0;
            }
            x.in_maint = on;
        }
    });
}

/// Called by the mock clock right after a reading was taken (hook `set_clock_read_hook`). Only a
/// scripted `invalidate_all` is a safe and interesting place: the call holds nothing yet, and
/// between its clock reading and its store of the watermark other threads may insert and
/// invalidate at later readings. The scripted call is linearised at its reading, so its line is
/// printed BEFORE the lines of what happened in between.
fn injected_at_clock_read() {
    let act = INJ.with(|i| {
        let mut b = match i.try_borrow_mut() {
            Ok(b) => b,
            Err(_) => return None,
        };
        match b.as_mut() {
            Some(x) if x.in_ins.is_some() && !x.busy => {
                // the first clock reading of a scripted insert: the call holds nothing yet
                let k = x.in_ins.take().unwrap();
                if x.rng.below(2) != 0 {
                    return None;
                }
                x.busy = true;
                let v = 20 + x.rng.below(12);
                let d = [1000u64, 600_000_000][x.rng.below(2) as usize];
                // variant 100: a later update; 101: a completed invalidate_all, then a later update
                let variant = 100 + x.rng.below(2);
                Some((x.cache.clone(), x.clock.clone(), k, v, variant, d))
            }
            Some(x) if x.in_invall && !x.busy => {
                if x.rng.below(2) != 0 {
                    return None;
                }
                x.busy = true;
                let k = x.rng.below(x.nkeys);
                let v = x.rng.below(12);
                let variant = x.rng.below(4);
                let d = [1u64, 1000, 600_000_000][x.rng.below(3) as usize];
                Some((x.cache.clone(), x.clock.clone(), k, v, variant, d))
            }
            _ => None,
        }
    });
    if let Some((c, clock, k, v, variant @ 100..=101, d)) = act {
        // Another logical thread updates the key of the scripted insert at a LATER clock reading,
        // and its map write lands first. The scripted insert then writes its value with its own,
        // older reading; it is linearised at its map step (its line follows these), and the note
        // `#rd k t` tells the reading it carries (model T, `ConcT.lean`).
        let t1 = clock.now_ns();
        let mut lines = Vec::new();
        if variant == 101 {
            clock.advance(dur(d as u128));
            lines.push(format!("adv {} -> ok", d));
            c.invalidate_all();
            lines.push("invall -> ok".to_string());
        }
        clock.advance(dur(d as u128));
        lines.push(format!("adv {} -> ok", d));
        c.insert(VKey::new(k), VVal::new(v));
        lines.push(format!("ins {} {} -> ok", k, v));
        lines.push(format!("#rd {} {}", k, t1));
        INJ.with(|i| {
            if let Some(x) = i.borrow_mut().as_mut() {
                x.out.extend(lines);
                x.busy = false;
            }
        });
        return;
    }
    if let Some((c, clock, k, v, variant, d)) = act {
        let mut lines = Vec::new();
        clock.advance(dur(d as u128));
        lines.push(format!("adv {} -> ok", d));
        if variant != 3 {
            c.insert(VKey::new(k), VVal::new(v));
            lines.push(format!("ins {} {} -> ok", k, v));
        }
        if variant >= 1 {
            clock.advance(dur(d as u128));
            lines.push(format!("adv {} -> ok", d));
            c.invalidate_all();
            lines.push("invall -> ok".to_string());
        }
        INJ.with(|i| {
            if let Some(x) = i.borrow_mut().as_mut() {
                x.out.extend(lines);
                x.busy = false;
            }
        });
    }
}

fn set_in_ins(k: Option<u64>) {
    INJ.with(|i| {
        if let Some(x) = i.borrow_mut().as_mut() {
            x.in_ins = if x.stamp { k } else { None };
        }
    });
}

fn set_in_invall(on: bool) {
    INJ.with(|i| {
        if let Some(x) = i.borrow_mut().as_mut() {
            x.in_invall = on;
        }
    });
}

fn no_public_calls() {
    INJ.with(|i| {
        if let Some(x) = i.borrow_mut().as_mut() {
            x.pub_calls = u32::MAX;
        }
    });
}

pub fn take_injected() -> Vec<String> {
    INJ.with(|i| match i.borrow_mut().as_mut() {
        Some(x) => std::mem::take(&mut x.out),
        None => Vec::new(),
    })
}

pub fn clear_inject() {
    INJECT_HOOK.with(|h| h.set(None));
    mini_moka::verif::set_clock_read_hook(None);
    INJ.with(|i| *i.borrow_mut() = None);
}

/// The phase-split hooks of the crate. They are guarded by a second cfg
/// (`mini_moka_verif_phase`) because they call private functions whose signatures a change to
/// the crate may alter: when they no longer build, the harness is rebuilt without them and the
/// components that need them (`concs`, `inject`) are skipped, the others still run.
#[cfg(mini_moka_verif_phase)]
mod phase {
    use super::*;
    pub const AVAILABLE: bool = true;
    pub type PW = mini_moka::verif::PendingWrite<VKey, VVal>;
    pub type PR = mini_moka::verif::PendingRead<VKey, VVal>;
    type C<S> = SCache<VKey, VVal, S>;
    pub fn insert_map<S: std::hash::BuildHasher + Clone + Send + Sync + 'static>(c: &C<S>, k: VKey, v: VVal) -> PW {
        c.verif_insert_map(k, v)
    }
    pub fn invalidate_map<S: std::hash::BuildHasher + Clone + Send + Sync + 'static>(c: &C<S>, k: &VKey) -> Option<PW> {
        c.verif_invalidate_map(k)
    }
    pub fn get_map<S: std::hash::BuildHasher + Clone + Send + Sync + 'static>(c: &C<S>, k: &VKey) -> (Option<VVal>, PR) {
        c.verif_get_map(k)
    }
    pub fn enqueue_write<S: std::hash::BuildHasher + Clone + Send + Sync + 'static>(c: &C<S>, p: PW) -> Result<(), PW> {
        c.verif_enqueue_write(p)
    }
    pub fn enqueue_read<S: std::hash::BuildHasher + Clone + Send + Sync + 'static>(c: &C<S>, p: PR) {
        c.verif_enqueue_read(p)
    }
    pub fn maint<S: std::hash::BuildHasher + Clone + Send + Sync + 'static>(c: &C<S>) {
        c.verif_maint()
    }
}

#[cfg(not(mini_moka_verif_phase))]
mod phase {
    use super::*;
    pub const AVAILABLE: bool = false;
    pub struct PW;
    pub struct PR;
    type C<S> = SCache<VKey, VVal, S>;
    pub fn insert_map<S>(_c: &C<S>, _k: VKey, _v: VVal) -> PW { unreachable!() }
    pub fn invalidate_map<S>(_c: &C<S>, _k: &VKey) -> Option<PW> { unreachable!() }
    pub fn get_map<S>(_c: &C<S>, _k: &VKey) -> (Option<VVal>, PR) { unreachable!() }
    pub fn enqueue_write<S>(_c: &C<S>, _p: PW) -> Result<(), PW> { unreachable!() }
    pub fn enqueue_read<S>(_c: &C<S>, _p: PR) { unreachable!() }
    pub fn maint<S>(_c: &C<S>) { unreachable!() }
}

/// What a logical thread holds between its map step and its enqueue (phase-split API).
enum Held {
    Write(phase::PW),
    Read(phase::PR),
}

thread_local! {
    static HELD: std::cell::RefCell<Vec<(u64, Held)>> = const { std::cell::RefCell::new(Vec::new()) };
}

pub fn clear_held() {
    HELD.with(|h| h.borrow_mut().clear());
}

fn holds(t: u64) -> bool {
    HELD.with(|h| h.borrow().iter().any(|(x, _)| *x == t))
}

fn exec_sync<S: std::hash::BuildHasher + Clone + Send + Sync + 'static>(c: &SCache<VKey, VVal, S>, clock: &VerifClock, op: &str) -> String {
    let ws: Vec<&str> = op.split_whitespace().collect();
    let num = |i: usize| -> Option<u64> { ws.get(i).and_then(|s| s.parse().ok()) };
    // phase-split operations of logical threads (kind=concs)
    if !phase::AVAILABLE && matches!(ws.first().copied(), Some("pins" | "pinv" | "pget" | "penq" | "maint")) {
        return "bad-op".into();
    }
    match ws.first().copied() {
        Some("pins") if ws.len() == 4 => {
            return match (num(1), num(2), num(3)) {
                (Some(t), Some(k), Some(v)) if !holds(t) => {
                    let (key, val) = (VKey::new(k), VVal::new(v));
                    // (no injection here: DashMap may re-hash stored keys under the shard lock while
                    // it inserts, so the hash callback is not a lock-free point during a map step)
                    let p = phase::insert_map(c, key, val);
                    HELD.with(|h| h.borrow_mut().push((t, Held::Write(p))));
                    "ok".into()
                }
                _ => "bad-op".into(),
            };
        }
        Some("pinv") if ws.len() == 3 => {
            return match (num(1), num(2)) {
                (Some(t), Some(k)) if !holds(t) => {
                    let key = VKey::new(k);
                    if let Some(p) = phase::invalidate_map(&c, &key) {
                        HELD.with(|h| h.borrow_mut().push((t, Held::Write(p))));
                        "held".into()
                    } else {
                        "none".into()
                    }
                }
                _ => "bad-op".into(),
            };
        }
        Some("pget") if ws.len() == 3 => {
            return match (num(1), num(2)) {
                (Some(t), Some(k)) if !holds(t) => {
                    let key = VKey::new(k);
                    let (r, p) = phase::get_map(c, &key);
                    HELD.with(|h| h.borrow_mut().push((t, Held::Read(p))));
                    match r {
                        Some(v) => format!("some {}", v.0),
                        None => "none".into(),
                    }
                }
                _ => "bad-op".into(),
            };
        }
        Some("penq") if ws.len() == 2 => {
            return match num(1) {
                Some(t) if holds(t) => {
                    let held = HELD.with(|h| {
                        let mut h = h.borrow_mut();
                        let i = h.iter().position(|(x, _)| *x == t).unwrap();
                        h.remove(i).1
                    });
                    match held {
                        Held::Read(p) => {
                            phase::enqueue_read(c, p);
                            "ok".into()
                        }
                        Held::Write(p) => match phase::enqueue_write(c, p) {
                            Ok(()) => "ok".into(),
                            Err(p) => {
                                // the channel is full: the thread keeps holding its operation
                                HELD.with(|h| h.borrow_mut().push((t, Held::Write(p))));
                                "full".into()
                            }
                        },
                    }
                }
                _ => "bad-op".into(),
            };
        }
        Some("maint") if ws.len() == 1 => {
            set_in_maint(true);
            phase::maint(c);
            set_in_maint(false);
            return "ok".into();
        }
        Some("sync") if ws.len() == 1 => {
            set_in_maint(true);
            // an explicit `sync()` does not take the housekeeper's flag: a whole public call made
            // inside it would start a housekeeping run of its own and wait for the deques mutex
            // this (same OS) thread holds. Only the hook-based map steps are injected here.
            no_public_calls();
            c.sync();
            set_in_maint(false);
            return "ok".into();
        }
        _ => {}
    }
    // `xhas`, `xiter`, `xsnap` are `has`, `iter`, `snap` marked as *extra* calls of a
    // metamorphic pair (C15); they execute exactly like the plain ones.
    let first = ws.first().copied().map(|w| match w {
        "xhas" => "has",
        "xiter" => "iter",
        "xsnap" => "snap",
        o => o,
    });
    match first {
        Some("ins") if ws.len() == 3 => match (num(1), num(2)) {
            (Some(k), Some(v)) => {
                set_in_ins(Some(k));
                c.insert(VKey::new(k), VVal::new(v));
                set_in_ins(None);
                "ok".into()
            }
            _ => "bad-op".into(),
        },
        Some("get") if ws.len() == 2 => match num(1) {
            Some(k) => {
                let key = VKey::new(k);
                match c.get(&key) {
                    Some(v) => format!("some {}", v.0),
                    None => "none".into(),
                }
            }
            None => "bad-op".into(),
        },
        Some("has") if ws.len() == 2 => match num(1) {
            Some(k) => {
                let key = VKey::new(k);
                if c.contains_key(&key) { "true".into() } else { "false".into() }
            }
            None => "bad-op".into(),
        },
        Some("iterover") if ws.len() >= 2 && matches!(ws[1], "ins" | "inv" | "invall" | "sync" | "adv") => {
            // the iterator is created, another operation runs, then the iterator is consumed: what
            // it yields must be resident, live and not invalidated at the time it is yielded
            // (creating the iterator takes no lock: DashMap locks a shard at the first `next`)
            let it = c.iter();
            let inner = ws[1..].join(" ");
            let r = exec_sync(c, clock, &inner);
            if r != "ok" {
                drop(it);
                return "bad-op".into();
            }
            let mut v: Vec<(u64, u64)> = it.map(|e| (e.key().0, e.value().0)).collect();
            v.sort();
            format!(
                "iter {}",
                v.iter().map(|(k, v)| format!("{}:{}", k, v)).collect::<Vec<_>>().join(",")
            )
        }
        Some("iterlag") if ws.len() == 2 => match ws[1].parse::<u128>() {
            Ok(d) => {
                let it = c.iter();
                clock.advance(dur(d));
                let mut v: Vec<(u64, u64)> = it.map(|e| (e.key().0, e.value().0)).collect();
                v.sort();
                format!(
                    "iter {}",
                    v.iter().map(|(k, v)| format!("{}:{}", k, v)).collect::<Vec<_>>().join(",")
                )
            }
            Err(_) => "bad-op".into(),
        },
        Some("iter") if ws.len() == 1 => {
            let mut v: Vec<(u64, u64)> = c.iter().map(|e| (e.key().0, e.value().0)).collect();
            v.sort();
            format!(
                "iter {}",
                v.iter().map(|(k, v)| format!("{}:{}", k, v)).collect::<Vec<_>>().join(",")
            )
        }
        Some("inv") if ws.len() == 2 => match num(1) {
            Some(k) => {
                let key = VKey::new(k);
                c.invalidate(&key);
                "ok".into()
            }
            None => "bad-op".into(),
        },
        Some("live") if ws.len() == 1 => {
            // number of key / value objects alive right now (instrumented types)
            format!(
                "live k={} v={}",
                KEY_LIVE.load(std::sync::atomic::Ordering::SeqCst),
                VAL_LIVE.load(std::sync::atomic::Ordering::SeqCst)
            )
        }
        Some("policy") if ws.len() == 1 => {
            let p = c.policy();
            let d = |x: Option<Duration>| match x {
                Some(d) => d.as_nanos().to_string(),
                None => "-".to_string(),
            };
            format!(
                "policy cap={} ttl={} tti={}",
                match p.max_capacity() { Some(c) => c.to_string(), None => "-".to_string() },
                d(p.time_to_live()),
                d(p.time_to_idle())
            )
        }
        Some("invall") if ws.len() == 1 => {
            set_in_invall(true);
            c.invalidate_all();
            set_in_invall(false);
            "ok".into()
        }
        Some("sync") if ws.len() == 1 => {
            c.sync();
            "ok".into()
        }
        Some("adv") if ws.len() == 2 => match ws[1].parse::<u128>() {
            Ok(d) => {
                clock.advance(dur(d));
                "ok".into()
            }
            Err(_) => "bad-op".into(),
        },
        Some("snap") if ws.len() == 1 => {
            // live object counts first: the snapshot itself clones keys and values
            let live = format!(
                "{},{}",
                KEY_LIVE.load(std::sync::atomic::Ordering::SeqCst),
                VAL_LIVE.load(std::sync::atomic::Ordering::SeqCst)
            );
            let s = c.verif_snapshot(clock);
            let mut keys: Vec<u64> = s.entries.iter().map(|e| e.key.0).collect();
            keys.sort();
            let freqs = keys
                .iter()
                .map(|k| {
                    let key = VKey::new(*k);
                    format!("{}:{}", k, c.verif_frequency(&key))
                })
                .collect::<Vec<_>>()
                .join(",");
            if c.entry_count() != s.entry_count || c.weighted_size() != s.weighted_size {
                return format!(
                    "snap getter-mismatch entry_count()={} weighted_size()={} internal ec={} ws={}",
                    c.entry_count(), c.weighted_size(), s.entry_count, s.weighted_size
                );
            }
            render_sync_snap(&s, clock.now_ns(), freqs, live)
        }
        Some("freq") if ws.len() == 2 => match num(1) {
            Some(k) => {
                let key = VKey::new(k);
                format!("freq {}", c.verif_frequency(&key))
            }
            None => "bad-op".into(),
        },
        _ => "bad-op".into(),
    }
}

pub fn op_part(line: &str) -> &str {
    match line.find(" -> ") {
        Some(i) => &line[..i],
        None => line,
    }
    .trim()
}

/// Runs all cases of an op file; writes `op -> observation` lines.
pub fn run_file<R: BufRead, W: Write>(input: R, out: &mut W) {
    let mut live: Option<Live> = None;
    let mut dead = false;
    for line in input.lines() {
        let line = match line {
            Ok(l) => l,
            Err(_) => break,
        };
        let op = op_part(&line);
        if op.is_empty() || op.starts_with('#') {
            continue;
        }
        if op.starts_with("cfg") {
            // drop the previous cache first (outside catch_unwind is fine)
            clear_inject();
            clear_held();
            live = None;
            dead = false;
            reset_counters();
            match parse_cfg(op) {
                None => {
                    writeln!(out, "{} -> bad-op", op).unwrap();
                    dead = true;
                }
                Some(cfg) => match build(&cfg) {
                    Ok(l) => {
                        live = Some(l);
                        writeln!(out, "{} -> ok", op).unwrap();
                    }
                    Err(e) => {
                        writeln!(out, "{} -> {}", op, e).unwrap();
                        dead = true;
                    }
                },
            }
            continue;
        }
        if dead {
            continue;
        }
        if op == "noinject" {
            // kind=inject: from here on no callback point injects a step any more
            INJECT_HOOK.with(|h| h.set(None));
            writeln!(out, "noinject -> ok").unwrap();
            continue;
        }
        if op == "drop" {
            // drop the last handle to the cache (operations may still be queued): every key
            // and value object must be released (what logical threads still hold goes first)
            clear_inject();
            clear_held();
            live = None;
            dead = true;
            writeln!(
                out,
                "drop -> dropped k={} v={}",
                KEY_LIVE.load(std::sync::atomic::Ordering::SeqCst),
                VAL_LIVE.load(std::sync::atomic::Ordering::SeqCst)
            )
            .unwrap();
            continue;
        }
        let res = match live.as_mut() {
            None => "bad-op".to_string(),
            Some(Live::Unsync(c, clock)) => {
                match catch_unwind(AssertUnwindSafe(|| exec_unsync(c, clock, op))) {
                    Ok(s) => s,
                    Err(p) => {
                        dead = true;
                        format!("panic {}", classify_panic(&panic_msg(p)))
                    }
                }
            }
            Some(Live::Sync(c, clock)) => {
                match catch_unwind(AssertUnwindSafe(|| exec_sync(c, clock, op))) {
                    Ok(s) => s,
                    Err(p) => {
                        dead = true;
                        format!("panic {}", classify_panic(&panic_msg(p)))
                    }
                }
            }
            Some(Live::UnsyncNew(c, clock)) => {
                match catch_unwind(AssertUnwindSafe(|| exec_unsync(c, clock, op))) {
                    Ok(s) => s,
                    Err(p) => {
                        dead = true;
                        format!("panic {}", classify_panic(&panic_msg(p)))
                    }
                }
            }
            Some(Live::SyncNew(c, clock)) => {
                match catch_unwind(AssertUnwindSafe(|| exec_sync(c, clock, op))) {
                    Ok(s) => s,
                    Err(p) => {
                        dead = true;
                        format!("panic {}", classify_panic(&panic_msg(p)))
                    }
                }
            }
            Some(Live::Facade(f)) => match crate::facade::exec(f, op) {
                Ok(s) => s,
                Err(e) => {
                    dead = true;
                    e
                }
            },
        };
        if op == "invall" {
            // linearised at its clock reading: what other threads did before it stored the
            // watermark comes after it
            writeln!(out, "{} -> {}", op, res).unwrap();
            for l in take_injected() {
                writeln!(out, "{}", l).unwrap();
            }
        } else {
            for l in take_injected() {
                writeln!(out, "{}", l).unwrap();
            }
            writeln!(out, "{} -> {}", op, res).unwrap();
        }
        if dead {
            // A cache that panicked mid-operation may be inconsistent: leak it rather
            // than running its destructor.
            if let Some(l) = live.take() {
                std::mem::forget(l);
            }
        }
    }
}
