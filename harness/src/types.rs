//! Instrumented key/value types, selectable hash functions and weighers, PRNG.

use std::hash::{BuildHasher, Hash, Hasher};
use std::sync::atomic::{AtomicI64, AtomicU64, Ordering};

pub static KEY_LIVE: AtomicI64 = AtomicI64::new(0);
pub static VAL_LIVE: AtomicI64 = AtomicI64::new(0);
pub static KEY_MADE: AtomicU64 = AtomicU64::new(0);
pub static VAL_MADE: AtomicU64 = AtomicU64::new(0);
pub static KEY_DROPPED: AtomicU64 = AtomicU64::new(0);
pub static VAL_DROPPED: AtomicU64 = AtomicU64::new(0);

pub fn reset_counters() {
    KEY_LIVE.store(0, Ordering::SeqCst);
    VAL_LIVE.store(0, Ordering::SeqCst);
    KEY_MADE.store(0, Ordering::SeqCst);
    VAL_MADE.store(0, Ordering::SeqCst);
    KEY_DROPPED.store(0, Ordering::SeqCst);
    VAL_DROPPED.store(0, Ordering::SeqCst);
}

/// Key object that counts constructions, clones and drops.
#[derive(Debug)]
pub struct VKey(pub u64);

impl VKey {
    pub fn new(k: u64) -> Self {
        KEY_LIVE.fetch_add(1, Ordering::SeqCst);
        KEY_MADE.fetch_add(1, Ordering::SeqCst);
        VKey(k)
    }
}

impl Clone for VKey {
    fn clone(&self) -> Self {
        VKey::new(self.0)
    }
}

impl Drop for VKey {
    fn drop(&mut self) {
        KEY_LIVE.fetch_sub(1, Ordering::SeqCst);
        KEY_DROPPED.fetch_add(1, Ordering::SeqCst);
    }
}

impl PartialEq for VKey {
    fn eq(&self, o: &Self) -> bool {
        self.0 == o.0
    }
}
impl Eq for VKey {}

thread_local! {
    /// Called at the user-callback points of the cache (hashing a key, weighing an entry): the
    /// `inject` component uses it to let another logical thread take a map step there.
    pub static INJECT_HOOK: std::cell::Cell<Option<fn()>> = const { std::cell::Cell::new(None) };
    /// The key being hashed when `INJECT_HOOK` is called from `Hash for VKey`.
    pub static CUR_KEY: std::cell::Cell<u64> = const { std::cell::Cell::new(0) };
}

#[inline]
pub fn inject_point() {
    if let Some(f) = INJECT_HOOK.with(|h| h.get()) {
        f()
    }
}

impl Hash for VKey {
    fn hash<H: Hasher>(&self, state: &mut H) {
        CUR_KEY.with(|c| c.set(self.0));
        inject_point();
        state.write_u64(self.0)
    }
}

#[derive(Debug)]
pub struct VVal(pub u64);

impl VVal {
    pub fn new(v: u64) -> Self {
        VAL_LIVE.fetch_add(1, Ordering::SeqCst);
        VAL_MADE.fetch_add(1, Ordering::SeqCst);
        VVal(v)
    }
}

impl Clone for VVal {
    fn clone(&self) -> Self {
        VVal::new(self.0)
    }
}

impl Drop for VVal {
    fn drop(&mut self) {
        VAL_LIVE.fetch_sub(1, Ordering::SeqCst);
        VAL_DROPPED.fetch_add(1, Ordering::SeqCst);
    }
}

#[derive(Clone, Copy, Debug, PartialEq, Eq)]
pub enum HashKind {
    Id,
    Const,
    Mod2,
    Mix,
    Top,
}

impl HashKind {
    pub fn parse(s: &str) -> Option<Self> {
        Some(match s {
            "id" => Self::Id,
            "const" => Self::Const,
            "mod2" => Self::Mod2,
            "mix" => Self::Mix,
            "top" => Self::Top,
            _ => return None,
        })
    }
    pub fn name(&self) -> &'static str {
        match self {
            Self::Id => "id",
            Self::Const => "const",
            Self::Mod2 => "mod2",
            Self::Mix => "mix",
            Self::Top => "top",
        }
    }
    pub fn apply(&self, k: u64) -> u64 {
        match self {
            Self::Id => k,
            Self::Const => 0,
            Self::Mod2 => k % 2,
            Self::Mix => splitmix(k),
            Self::Top => k << 32,
        }
    }
}

pub fn splitmix(k: u64) -> u64 {
    let mut z = k.wrapping_add(0x9e3779b97f4a7c15);
    z = (z ^ (z >> 30)).wrapping_mul(0xbf58476d1ce4e5b9);
    z = (z ^ (z >> 27)).wrapping_mul(0x94d049bb133111eb);
    z ^ (z >> 31)
}

#[derive(Clone, Copy)]
pub struct VBuildHasher(pub HashKind);

pub struct VHasher {
    kind: HashKind,
    v: u64,
}

impl BuildHasher for VBuildHasher {
    type Hasher = VHasher;
    fn build_hasher(&self) -> VHasher {
        VHasher { kind: self.0, v: 0 }
    }
}

impl Hasher for VHasher {
    fn finish(&self) -> u64 {
        self.kind.apply(self.v)
    }
    fn write(&mut self, bytes: &[u8]) {
        for b in bytes {
            self.v = (self.v << 8) | (*b as u64);
        }
    }
    fn write_u64(&mut self, i: u64) {
        self.v = i;
    }
}

#[derive(Clone, Copy, Debug, PartialEq, Eq)]
pub enum WeigherKind {
    None,
    Const(u64),
    VMod(u64),
    KMod(u64),
    Val,
}

impl WeigherKind {
    pub fn parse(s: &str) -> Option<Self> {
        if s == "none" {
            Some(Self::None)
        } else if s == "val" {
            Some(Self::Val)
        } else if let Some(r) = s.strip_prefix("vmod") {
            r.parse().ok().map(Self::VMod)
        } else if let Some(r) = s.strip_prefix("kmod") {
            r.parse().ok().map(Self::KMod)
        } else if let Some(r) = s.strip_prefix('c') {
            r.parse().ok().map(Self::Const)
        } else {
            None
        }
    }
    pub fn name(&self) -> String {
        match self {
            Self::None => "none".into(),
            Self::Const(c) => format!("c{}", c),
            Self::VMod(m) => format!("vmod{}", m),
            Self::KMod(m) => format!("kmod{}", m),
            Self::Val => "val".into(),
        }
    }
    pub fn weigh(&self, k: u64, v: u64) -> u32 {
        match self {
            Self::None => 1,
            Self::Const(c) => *c as u32,
            Self::VMod(m) => (v % m) as u32,
            Self::KMod(m) => (k % m) as u32,
            Self::Val => v.min(u32::MAX as u64) as u32,
        }
    }
}

/// xorshift64* — every random choice of a run derives from one seed.
#[derive(Clone)]
pub struct Rng(pub u64);

impl Rng {
    pub fn new(seed: u64) -> Self {
        Rng(splitmix(seed) | 1)
    }
    pub fn next(&mut self) -> u64 {
        let mut x = self.0;
        x ^= x >> 12;
        x ^= x << 25;
        x ^= x >> 27;
        self.0 = x;
        x.wrapping_mul(0x2545F4914F6CDD1D)
    }
    pub fn below(&mut self, n: u64) -> u64 {
        if n == 0 {
            0
        } else {
            self.next() % n
        }
    }
    pub fn chance(&mut self, num: u64, den: u64) -> bool {
        self.below(den) < num
    }
    pub fn pick<T: Copy>(&mut self, xs: &[T]) -> T {
        xs[self.below(xs.len() as u64) as usize]
    }
}

pub fn fnv_words(words: &[u64]) -> u64 {
    let mut h: u64 = 0xcbf29ce484222325;
    for w in words {
        h = (h ^ *w).wrapping_mul(0x100000001b3);
    }
    h
}
