mod conc;
mod facade;
mod gen;
mod run;
mod types;

use std::io::{self, BufWriter, Write};

fn usage() -> ! {
    eprintln!(
        "usage:\n  mmharness run < ops > trace\n  mmharness gen <unsync|sync> <seed> <ncases> <len> [profile|all] [blackbox|whitebox] [any|none|large]"
    );
    std::process::exit(2)
}

fn main() {
    // Panics are caught per operation; keep stderr quiet.
    std::panic::set_hook(Box::new(|_| {}));
    let args: Vec<String> = std::env::args().collect();
    if args.len() < 2 {
        usage();
    }
    let stdout = io::stdout();
    let mut out = BufWriter::new(stdout.lock());
    match args[1].as_str() {
        "run" => {
            let stdin = io::stdin();
            run::run_file(stdin.lock(), &mut out);
        }
        "conc" => {
            let seed: u64 = args.get(2).and_then(|s| s.parse().ok()).unwrap_or(1);
            let n: u64 = args.get(3).and_then(|s| s.parse().ok()).unwrap_or(100);
            conc::run_programs(seed, n, &mut out);
        }
        "iterw" => {
            let seed: u64 = args.get(2).and_then(|s| s.parse().ok()).unwrap_or(1);
            let n: u64 = args.get(3).and_then(|s| s.parse().ok()).unwrap_or(10);
            conc::run_iter_writers(seed, n, &mut out);
        }
        "hammer" => {
            let seed: u64 = args.get(2).and_then(|s| s.parse().ok()).unwrap_or(1);
            let n: u64 = args.get(3).and_then(|s| s.parse().ok()).unwrap_or(9);
            conc::run_hammer(seed, n, &mut out);
        }
        "stall" => {
            let seed: u64 = args.get(2).and_then(|s| s.parse().ok()).unwrap_or(1);
            let n: u64 = args.get(3).and_then(|s| s.parse().ok()).unwrap_or(10);
            conc::run_stall(seed, n, &mut out);
        }
        "gen" => {
            if args.len() < 6 {
                usage();
            }
            let kind: &'static str = match args[2].as_str() {
                "unsync" => "unsync",
                "sync" => "sync",
                "sketch" => "sketch",
                "deque" => "deque",
                "config" => "config",
                "concs" => "concs",
                "inject" => "inject",
                _ => usage(),
            };
            let seed: u64 = args[3].parse().unwrap_or_else(|_| usage());
            let ncases: u64 = args[4].parse().unwrap_or_else(|_| usage());
            let len: usize = args[5].parse().unwrap_or_else(|_| usage());
            let prof = args.get(6).map(|s| s.as_str()).unwrap_or("all");
            let white = args.get(7).map(|s| s.as_str()) != Some("blackbox");
            let capmode = args.get(8).map(|s| s.as_str()).unwrap_or("any").to_string();
            for i in 0..ncases {
                let p = if prof == "all" {
                    gen::PROFILES[(i % gen::PROFILES.len() as u64) as usize]
                } else {
                    gen::Profile::parse(prof).unwrap_or_else(|| usage())
                };
                let case_seed = types::splitmix(seed.wrapping_mul(1_000_003).wrapping_add(i));
                if kind == "sketch" || kind == "deque" || kind == "config" {
                    let lines = if kind == "sketch" {
                        facade::gen_sketch(case_seed, len)
                    } else if kind == "deque" {
                        facade::gen_deque(case_seed, len)
                    } else {
                        facade::gen_config(case_seed, len)
                    };
                    for l in lines {
                        writeln!(out, "{}", l).unwrap();
                    }
                    continue;
                }
                if kind == "inject" {
                    for l in gen::gen_inject(case_seed, p, len) {
                        writeln!(out, "{}", l).unwrap();
                    }
                    continue;
                }
                if kind == "concs" {
                    for l in gen::gen_concs(case_seed, p, len) {
                        writeln!(out, "{}", l).unwrap();
                    }
                    continue;
                }
                for l in gen::gen_case(case_seed, kind, p, len, white, &capmode) {
                    writeln!(out, "{}", l).unwrap();
                }
            }
        }
        _ => usage(),
    }
    out.flush().unwrap();
}
