//! Facade components: the popularity sketch and the intrusive list, driven directly.

use crate::types::*;
use mini_moka::verif::{VerifDeque, VerifSketch};
use std::panic::{catch_unwind, AssertUnwindSafe};

pub enum Facade {
    Sketch(VerifSketch),
    Deque(VerifDeque),
}

fn o(x: Option<u64>) -> String {
    match x {
        Some(v) => format!("some {}", v),
        None => "none".into(),
    }
}

pub fn exec(f: &mut Facade, op: &str) -> Result<String, String> {
    let ws: Vec<&str> = op.split_whitespace().collect();
    let num = |i: usize| -> Option<u64> { ws.get(i).and_then(|s| s.parse().ok()) };
    let r = catch_unwind(AssertUnwindSafe(|| match f {
        Facade::Sketch(s) => match (ws.first().copied(), num(1)) {
            (Some("skt.ensure"), Some(c)) => {
                s.ensure_capacity(c as u32);
                "ok".to_string()
            }
            (Some("skt.cap"), Some(c)) => format!("cap {}", VerifSketch::sketch_capacity(c)),
            (Some("skt.inc"), Some(h)) => {
                s.increment(h);
                format!("ok size={}", s.size())
            }
            (Some("skt.freq"), Some(h)) => format!("freq {}", s.frequency(h)),
            (Some("skt.dump"), None) => {
                let sn = s.snapshot();
                format!(
                    "skt {},{},{},{:016x}",
                    sn.size,
                    sn.sample_size,
                    sn.table.len(),
                    fnv_words(&sn.table)
                )
            }
            _ => "bad-op".to_string(),
        },
        Facade::Deque(d) => match (ws.first().copied(), num(1)) {
            (Some("dq.push"), Some(id)) => {
                if d.knows(id) {
                    "bad-op".to_string()
                } else {
                    d.push_back(id);
                    "ok".to_string()
                }
            }
            (Some("dq.pop"), None) => o(d.pop_front()),
            (Some("dq.peek"), None) => o(d.peek_front()),
            (Some("dq.contains"), Some(id)) => match d.contains(id) {
                Some(b) => format!("some {}", b),
                None => "none".into(),
            },
            (Some("dq.mtb"), Some(id)) => format!("{}", d.move_to_back(id)),
            (Some("dq.mftb"), None) => {
                d.move_front_to_back();
                "ok".to_string()
            }
            (Some("dq.unlink"), Some(id)) => format!("{}", d.unlink(id)),
            (Some("dq.relink"), Some(id)) => format!("{}", d.relink_back(id)),
            (Some("dq.uad"), Some(id)) => format!("{}", d.unlink_and_drop(id)),
            (Some("dq.next"), Some(id)) => match d.next_of(id) {
                Some(x) => format!("some {}", o(x).replace(' ', ":")),
                None => "none".into(),
            },
            (Some("dq.iter"), None) => o(d.iter_next()),
            (Some("dq.len"), None) => format!("len {}", d.len()),
            (Some("dq.dump"), None) => match d.dump() {
                Ok((v, cs, cur)) => format!(
                    "dump [{}] {} {}",
                    v.iter().map(|x| x.to_string()).collect::<Vec<_>>().join(","),
                    cs,
                    match cur {
                        Some(c) => c.to_string(),
                        None => "-".into(),
                    }
                ),
                Err(e) => format!("dump-error {}", e),
            },
            _ => "bad-op".to_string(),
        },
    }));
    r.map_err(|p| {
        let msg = if let Some(s) = p.downcast_ref::<&str>() {
            s.to_string()
        } else if let Some(s) = p.downcast_ref::<String>() {
            s.clone()
        } else {
            "unknown".into()
        };
        format!("panic {}", crate::run::classify_panic(&msg))
    })
}

/// Generators for the facade components.
pub fn gen_sketch(seed: u64, len: usize) -> Vec<String> {
    let mut rng = Rng::new(seed);
    let caps = [0u64, 1, 2, 3, 5, 8, 100, 128, 129, 200, 1000, 4097, 65537, 1 << 20];
    let cap = if rng.chance(1, 12) { rng.below(3000) } else { rng.pick(&caps) };
    let mut out = vec![format!("cfg kind=sketch cap={} seed={}", cap, seed)];
    out.push(format!("skt.cap {}", rng.pick(&[0u64, 5, 127, 128, 129, 4_000_000_000, 5_000_000_000, u64::MAX])));
    if rng.chance(1, 10) {
        // increments before the table exists are ignored
        out.push(format!("skt.inc {}", rng.next()));
        out.push("skt.dump".into());
    }
    out.push(format!("skt.ensure {}", cap));
    if rng.chance(1, 8) {
        out.push(format!("skt.ensure {}", rng.pick(&caps)));
    }
    let mode = rng.below(4);
    let hot: Vec<u64> = (0..(1 + rng.below(6))).map(|_| rng.next()).collect();
    let n = match cap {
        0..=8 => len.min(400),
        _ => len,
    };
    for i in 0..n {
        let h = match mode {
            0 => rng.next(),
            1 => {
                if rng.chance(3, 4) { hot[rng.below(hot.len() as u64) as usize] } else { rng.next() }
            }
            2 => (rng.next() & !3) | (hot[0] & 3), // same counter group: collisions in small tables
            _ => rng.below(16),
        };
        out.push(format!("skt.inc {}", h));
        if rng.chance(1, 6) {
            let q = if rng.chance(1, 2) { h } else { hot[rng.below(hot.len() as u64) as usize] };
            out.push(format!("skt.freq {}", q));
        }
        if i % 97 == 96 {
            out.push("skt.dump".into());
        }
    }
    for h in &hot {
        out.push(format!("skt.freq {}", h));
    }
    out.push("skt.dump".into());
    out
}

pub fn gen_deque(seed: u64, len: usize) -> Vec<String> {
    let mut rng = Rng::new(seed);
    let mut out = vec![format!("cfg kind=deque seed={}", seed)];
    let universe = 3 + rng.below(10);
    let mut next_id = 0u64;
    for _ in 0..len {
        let id = rng.below(universe.max(next_id.min(40) + 1));
        let s = match rng.below(22) {
            0..=5 => {
                next_id += 1;
                format!("dq.push {}", 100 + next_id)
            }
            6 | 7 => "dq.pop".to_string(),
            8 => "dq.peek".to_string(),
            9 | 10 => format!("dq.contains {}", 100 + rng.below(next_id + 2)),
            11 | 12 | 13 => format!("dq.mtb {}", 100 + rng.below(next_id + 2)),
            14 => "dq.mftb".to_string(),
            15 => format!("dq.unlink {}", 100 + rng.below(next_id + 2)),
            16 => format!("dq.relink {}", 100 + rng.below(next_id + 2)),
            17 | 18 => format!("dq.uad {}", 100 + rng.below(next_id + 2)),
            19 => format!("dq.next {}", 100 + rng.below(next_id + 2)),
            20 => "dq.iter".to_string(),
            _ => "dq.len".to_string(),
        };
        let _ = id;
        out.push(s);
        out.push("dq.dump".into());
    }
    out
}

/// Configuration component (C17): every combination of builder knobs, boundary durations,
/// `new(n)` versus the builder, followed by `policy` and a short below-capacity history.
pub fn gen_config(seed: u64, len: usize) -> Vec<String> {
    let mut rng = Rng::new(seed);
    let max_ns: u128 = 1000 * 365 * 24 * 3600 * 1_000_000_000u128;
    let kind = if rng.chance(1, 2) { "unsync" } else { "sync" };
    let durs: Vec<String> = vec![
        "none".into(), "none".into(), "0".into(), "1".into(), "1000000000".into(), "20000000000".into(),
        "10000000000".into(), max_ns.to_string(), (max_ns + 1).to_string(), (max_ns - 1).to_string(),
        (max_ns * 3).to_string(),
    ];
    let caps = ["none", "0", "1", "5", "100", "1000", "4294967296", "18446744073709551615"];
    let ctor_new = rng.chance(1, 6);
    let cap = if ctor_new { rng.pick(&["5", "100", "1000", "0", "18446744073709551615"]) } else { rng.pick(&caps) };
    let ttl = if ctor_new { "none".to_string() } else { durs[rng.below(durs.len() as u64) as usize].clone() };
    let tti = if ctor_new { "none".to_string() } else { durs[rng.below(durs.len() as u64) as usize].clone() };
    let w = if ctor_new { "none" } else { rng.pick(&["none", "none", "c1", "vmod4", "c0"]) };
    let initcap = if ctor_new { "none" } else { rng.pick(&["none", "0", "10", "1000"]) };
    let mut out = vec![format!(
        "cfg kind={} cap={} w={} ttl={} tti={} hash=id initcap={} ctor={} seed={}",
        kind, cap, w, ttl, tti, initcap, if ctor_new { "new" } else { "builder" }, seed
    )];
    out.push("policy".into());
    // a short history that stays below every capacity >= 100 (lookups are then independent
    // of the hasher, which `new` picks at random)
    let small = matches!(cap, "none" | "100" | "1000" | "4294967296" | "18446744073709551615");
    if small && w != "c0" {
        for _ in 0..len {
            let k = rng.below(8);
            match rng.below(8) {
                0..=2 => out.push(format!("ins {} {}", k, rng.below(12))),
                3 | 4 => out.push(format!("get {}", k)),
                5 => out.push(format!("has {}", k)),
                6 => out.push("iter".into()),
                _ => out.push(format!("inv {}", k)),
            }
        }
        out.push("iter".into());
    }
    out.push("policy".into());
    out
}
