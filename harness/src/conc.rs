//! Real-thread component: small concurrent programs on one `sync::Cache`, every operation
//! stamped with a global counter at invocation and response.  Output (one program per block):
//!
//!   prog <n> cap=<c> threads=<t> ...
//!   t<tid> <inv> <res> <op> -> <result>        (one line per completed operation)
//!   final <inv> <res> get <k> -> <result>      (single-threaded, after join + sync)
//!   snap ...                                   (quiescent white-box snapshot)
//!   refill <inserted> <retained>               (C03: fresh unit-weight keys after quiescence)
//!   iterw keys=<n> writers=<w> ...             (C16: iteration beside writers)

use crate::types::*;
use mini_moka::sync::{Cache as SCache, ConcurrentCacheExt};
use std::sync::atomic::{AtomicU64, Ordering};
use std::sync::{Arc, Barrier};

static STAMP: AtomicU64 = AtomicU64::new(1);

fn stamp() -> u64 {
    STAMP.fetch_add(1, Ordering::SeqCst)
}

#[derive(Clone, Debug)]
enum COp {
    Ins(u64, u64),
    Get(u64),
    Inv(u64),
    Sync,
}

pub fn run_programs<W: std::io::Write>(seed: u64, nprog: u64, out: &mut W) {
    for pi in 0..nprog {
        let mut rng = Rng::new(splitmix(seed.wrapping_mul(7919).wrapping_add(pi)));
        let threads = 2 + rng.below(3) as usize;
        let nkeys = 1 + rng.below(3);
        let cap: Option<u64> = match rng.below(6) {
            0 => None,
            n => Some(n.min(4)),
        };
        let with_weigher = rng.chance(1, 4);
        let mut b = SCache::<u64, u64>::builder();
        if let Some(c) = cap {
            b = b.max_capacity(c);
        }
        if with_weigher {
            b = b.weigher(|_k: &u64, v: &u64| (*v % 3) as u32);
        }
        let cache = b.build_with_hasher(VBuildHasher(HashKind::Mix));
        // programs: writer-unique values (thread id in the high digits)
        let mut progs: Vec<Vec<COp>> = Vec::new();
        for t in 0..threads {
            let n = 1 + rng.below(6);
            let mut p = Vec::new();
            for j in 0..n {
                let k = rng.below(nkeys);
                p.push(match rng.below(10) {
                    0..=3 => COp::Ins(k, (t as u64 + 1) * 1000 + j),
                    4..=7 => COp::Get(k),
                    8 => COp::Inv(k),
                    _ => COp::Sync,
                });
            }
            progs.push(p);
        }
        writeln!(out, "prog {} cap={} threads={} keys={} weigher={}", pi,
                 cap.map(|c| c.to_string()).unwrap_or_else(|| "none".into()), threads, nkeys, with_weigher).unwrap();
        let barrier = Arc::new(Barrier::new(threads));
        let mut handles = Vec::new();
        for (t, p) in progs.into_iter().enumerate() {
            let c = cache.clone();
            let bar = Arc::clone(&barrier);
            handles.push(std::thread::spawn(move || {
                let mut lines = Vec::new();
                bar.wait();
                for op in p {
                    let inv = stamp();
                    let (name, res) = match &op {
                        COp::Ins(k, v) => {
                            c.insert(*k, *v);
                            (format!("ins {} {}", k, v), "ok".to_string())
                        }
                        COp::Get(k) => {
                            let r = c.get(k);
                            (format!("get {}", k), match r {
                                Some(v) => format!("some {}", v),
                                None => "none".into(),
                            })
                        }
                        COp::Inv(k) => {
                            c.invalidate(k);
                            (format!("inv {}", k), "ok".to_string())
                        }
                        COp::Sync => {
                            c.sync();
                            ("sync".to_string(), "ok".to_string())
                        }
                    };
                    let res_stamp = stamp();
                    lines.push(format!("t{} {} {} {} -> {}", t, inv, res_stamp, name, res));
                }
                lines
            }));
        }
        for h in handles {
            for l in h.join().unwrap() {
                writeln!(out, "{}", l).unwrap();
            }
        }
        // quiescence
        cache.sync();
        cache.sync();
        for k in 0..nkeys {
            let inv = stamp();
            let r = cache.get(&k);
            let res = stamp();
            writeln!(out, "final {} {} get {} -> {}", inv, res, k, match r {
                Some(v) => format!("some {}", v),
                None => "none".into(),
            }).unwrap();
        }
        cache.sync();
        let ec = cache.entry_count();
        let ws = cache.weighted_size();
        let mut resident: Vec<(u64, u64)> = cache.iter().map(|e| (*e.key(), *e.value())).collect();
        resident.sort();
        let wsum: u64 = resident.iter().map(|(_, v)| if with_weigher { v % 3 } else { 1 }).sum();
        writeln!(out, "quiet ec={} ws={} resident={} weight={}", ec, ws, resident.len(), wsum).unwrap();
        // C03: after the multi-threaded phase, a refill of max_capacity fresh unit keys is retained
        if let (Some(c), false) = (cap, with_weigher) {
            for k in 0..nkeys {
                cache.invalidate(&k);
            }
            cache.sync();
            for i in 0..c {
                cache.insert(1_000_000 + i, 1);
                cache.sync();
            }
            let kept = (0..c).filter(|i| cache.contains_key(&(1_000_000 + i))).count();
            writeln!(out, "refill {} {}", c, kept).unwrap();
        }
    }
}

/// C16 beside writers: k writer threads update a fixed key set while m threads iterate.
pub fn run_iter_writers<W: std::io::Write>(seed: u64, rounds: u64, out: &mut W) {
    for r in 0..rounds {
        let mut rng = Rng::new(splitmix(seed.wrapping_mul(104729).wrapping_add(r)));
        // stable keys 0..nkeys are only ever updated; volatile keys nkeys..nkeys+nvol are inserted and
        // invalidated by the writers while iterators run (every third round has none)
        let nkeys = if rng.chance(1, 3) { 150 + rng.below(400) } else { 4 + rng.below(60) };
        let nvol = if r % 3 == 2 { 0 } else { 8 + rng.below(nkeys / 2 + 8) };
        let writers = 1 + rng.below(3) as usize;
        let iters = 1 + rng.below(2) as usize;
        let cache = SCache::<u64, u64>::builder().build_with_hasher(VBuildHasher(HashKind::Mix));
        // interleave the two classes in insertion order so that volatile keys sit everywhere in the map
        for k in 0..nkeys.max(nvol) {
            if k < nkeys {
                cache.insert(k, k * 1_000_000);
            }
            if k < nvol {
                cache.insert(nkeys + k, (nkeys + k) * 1_000_000);
            }
        }
        cache.sync();
        let stop = Arc::new(std::sync::atomic::AtomicBool::new(false));
        let mut wh = Vec::new();
        for w in 0..writers {
            let c = cache.clone();
            let st = Arc::clone(&stop);
            wh.push(std::thread::spawn(move || {
                let mut n = 0u64;
                while !st.load(Ordering::Relaxed) && n < 20_000 {
                    let k = (n * 7 + w as u64) % nkeys;
                    // value encodes key so that a yielded value can be checked for plausibility
                    c.insert(k, k * 1_000_000 + (w as u64 + 1) * 10_000 + (n % 10_000));
                    if nvol > 0 {
                        let v = nkeys + (n * 13 + w as u64) % nvol;
                        if n % 2 == 0 {
                            c.invalidate(&v);
                        } else {
                            c.insert(v, v * 1_000_000 + (n % 10_000));
                        }
                    }
                    n += 1;
                }
            }));
        }
        let mut ih = Vec::new();
        for _ in 0..iters {
            let c = cache.clone();
            ih.push(std::thread::spawn(move || {
                let mut results = Vec::new();
                for _ in 0..5 {
                    let v: Vec<(u64, u64)> = c.iter().map(|e| (*e.key(), *e.value())).collect();
                    results.push(v);
                }
                results
            }));
        }
        let mut bad = 0u64;
        let mut total = 0u64;
        for h in ih {
            for v in h.join().unwrap() {
                total += 1;
                let mut keys: Vec<u64> = v.iter().map(|(k, _)| *k).collect();
                keys.sort();
                // no key twice (stable or volatile); every stable key exactly once; nothing else
                let nodup = keys.windows(2).all(|w| w[0] != w[1]);
                let stable: Vec<u64> = keys.iter().copied().filter(|k| *k < nkeys).collect();
                let complete = stable == (0..nkeys).collect::<Vec<_>>();
                let known = keys.iter().all(|k| *k < nkeys + nvol);
                let plausible = v.iter().all(|(k, val)| val / 1_000_000 == *k);
                if !(nodup && complete && known && plausible) {
                    bad += 1;
                    let missing: Vec<u64> = (0..nkeys).filter(|k| !stable.contains(k)).take(8).collect();
                    writeln!(
                        out,
                        "iterw-bad keys={} volatile={} nodup={} complete={} plausible={} missing(first)={:?} yielded={}",
                        nkeys, nvol, nodup, complete, plausible, missing, v.len()
                    )
                    .unwrap();
                }
            }
        }
        stop.store(true, Ordering::Relaxed);
        for h in wh {
            h.join().unwrap();
        }
        writeln!(out, "iterw round={} keys={} writers={} iterations={} bad={}", r, nkeys, writers, total, bad).unwrap();
    }
}

// ---------------------------------------------------------------------------------------------
// C09 progress beside a thread that is held inside the maintenance and then leaves.
//
// One thread (the *holder*) builds a small history (inserts, then `invalidate_all` or a
// time-to-live that runs out) and then reads a missing key until one of its calls runs the
// housekeeping.  It is parked at the j-th user callback (key hash) that the maintenance makes —
// recognisable because the key hashed is not the key of the holder's own call — which, depending
// on j and the history, is inside the drain loop (an admission removing its victims) or in the
// expiry phase after the loop.  Meanwhile 2–3 writers insert fresh keys until they finish or stop
// making progress (write channel full, maintenance flag held).  Then the holder is released,
// completes that one call and never touches the cache again.  Every writer must then finish:
// nothing a departed thread did may leave the others waiting.  Output: one `stall …` line per
// round and a `stall-bad …` line when writers are still blocked after the watchdog.
// ---------------------------------------------------------------------------------------------

static HOLD: std::sync::atomic::AtomicBool = std::sync::atomic::AtomicBool::new(false);
static PARKED: std::sync::atomic::AtomicBool = std::sync::atomic::AtomicBool::new(false);

thread_local! {
    static FOREIGN: std::cell::Cell<u64> = const { std::cell::Cell::new(0) };
    static PARK_AT: std::cell::Cell<u64> = const { std::cell::Cell::new(0) };
    static OWN_KEY: std::cell::Cell<u64> = const { std::cell::Cell::new(u64::MAX) };
    static LEAVE: std::cell::Cell<bool> = const { std::cell::Cell::new(false) };
    static READING: std::cell::Cell<bool> = const { std::cell::Cell::new(false) };
}

fn stall_hook() {
    // Only the holder's reads count: a `get` never writes to the map, so a hash of another key
    // during it comes from the maintenance (during an insert it can also be DashMap re-hashing a
    // shard under the shard lock).
    if !READING.with(|c| c.get()) || CUR_KEY.with(|c| c.get()) == OWN_KEY.with(|c| c.get()) {
        return;
    }
    let n = FOREIGN.with(|h| {
        h.set(h.get() + 1);
        h.get()
    });
    if n == PARK_AT.with(|p| p.get()) {
        PARKED.store(true, Ordering::SeqCst);
        LEAVE.with(|l| l.set(true)); // the call in which the holder was parked is its last one
        let t0 = std::time::Instant::now();
        while HOLD.load(Ordering::SeqCst) && t0.elapsed() < std::time::Duration::from_secs(20) {
            std::thread::sleep(std::time::Duration::from_micros(200));
        }
    }
}

pub fn run_stall<W: std::io::Write>(seed: u64, rounds: u64, out: &mut W) {
    use std::time::{Duration, Instant};
    for r in 0..rounds {
        let mut rng = Rng::new(splitmix(seed.wrapping_mul(15485863).wrapping_add(r)));
        let prefill = 1 + rng.below(60);
        let expire = 1 + rng.below(3); // 1: invalidate_all, 2: time_to_live, 3: capacity only
        let cap: Option<u64> = match (expire, rng.below(3)) {
            (3, _) => Some(1 + rng.below(8)),
            (_, 0) => None,
            (_, 1) => Some(4 + rng.below(16)),
            _ => Some(100_000),
        };
        let nwriters = 2 + rng.below(2) as usize;
        let per_writer = 300 + rng.below(600);
        let park_at = 1 + rng.below(prefill.min(12));
        let mut b = SCache::<VKey, u64>::builder();
        if let Some(c) = cap {
            b = b.max_capacity(c);
        }
        if expire == 2 {
            b = b.time_to_live(Duration::from_millis(1));
        }
        let cache = b.build_with_hasher(VBuildHasher(HashKind::Mix));
        HOLD.store(true, Ordering::SeqCst);
        PARKED.store(false, Ordering::SeqCst);
        let holder = {
            let c = cache.clone();
            std::thread::spawn(move || {
                FOREIGN.with(|h| h.set(0));
                PARK_AT.with(|p| p.set(park_at));
                LEAVE.with(|l| l.set(false));
                INJECT_HOOK.with(|h| h.set(Some(stall_hook)));
                let left = || LEAVE.with(|l| l.get());
                let own = |k: u64| OWN_KEY.with(|o| o.set(k));
                let mut calls = 0u64;
                for k in 0..prefill {
                    own(k);
                    c.insert(VKey(k), k);
                    calls += 1;
                    if left() {
                        break;
                    }
                }
                if !left() && expire == 1 {
                    c.invalidate_all();
                }
                if !left() && expire == 2 {
                    std::thread::sleep(Duration::from_millis(3));
                }
                // reads of a missing key until one of them runs the housekeeping (at the latest
                // when the read log reaches its flush point) and the maintenance hashes a key
                READING.with(|c| c.set(true));
                for _ in 0..200 {
                    if left() {
                        break;
                    }
                    own(999_999);
                    c.get(&VKey(999_999));
                    calls += 1;
                }
                READING.with(|c| c.set(false));
                INJECT_HOOK.with(|h| h.set(None));
                PARKED.store(true, Ordering::SeqCst); // never parked: the maintenance hashed fewer keys
                (left(), calls, FOREIGN.with(|h| h.get()))
            })
        };
        let t0 = Instant::now();
        while !PARKED.load(Ordering::SeqCst) && t0.elapsed() < Duration::from_secs(5) {
            std::thread::sleep(Duration::from_micros(100));
        }
        let progress = Arc::new(AtomicU64::new(0));
        let done = Arc::new(AtomicU64::new(0));
        let mut wh = Vec::new();
        for w in 0..nwriters {
            let c = cache.clone();
            let pr = Arc::clone(&progress);
            let dn = Arc::clone(&done);
            wh.push(std::thread::spawn(move || {
                for i in 0..per_writer {
                    let k = 1_000_000 * (w as u64 + 1) + i;
                    if i % 7 == 3 {
                        c.invalidate(&VKey(k - 1));
                    } else {
                        c.insert(VKey(k), i);
                    }
                    pr.fetch_add(1, Ordering::SeqCst);
                }
                dn.fetch_add(1, Ordering::SeqCst);
            }));
        }
        // let the writers run until they finish or stop making progress
        let mut last = 0u64;
        let mut last_change = Instant::now();
        let t1 = Instant::now();
        loop {
            let p = progress.load(Ordering::SeqCst);
            if p != last {
                last = p;
                last_change = Instant::now();
            }
            if done.load(Ordering::SeqCst) == nwriters as u64
                || last_change.elapsed() > Duration::from_millis(40)
                || t1.elapsed() > Duration::from_secs(5)
            {
                break;
            }
            std::thread::sleep(Duration::from_micros(500));
        }
        let stalled_at = progress.load(Ordering::SeqCst);
        let finished_before = done.load(Ordering::SeqCst);
        HOLD.store(false, Ordering::SeqCst);
        let (parked, calls, foreign) = holder.join().unwrap();
        // the holder has left; the writers must get through on their own
        let t2 = Instant::now();
        while done.load(Ordering::SeqCst) < nwriters as u64 && t2.elapsed() < Duration::from_secs(10) {
            std::thread::sleep(Duration::from_millis(1));
        }
        let ok = done.load(Ordering::SeqCst) == nwriters as u64;
        if ok {
            for h in wh {
                h.join().unwrap();
            }
        } else {
            writeln!(
                out,
                "stall-bad prefill={} expire={} cap={:?} holder parked in its call #{} at the {}th key hashed by the maintenance; writers={}x{}: after the holder left, {} of {} writers are still blocked at {} completed operations",
                prefill, expire, cap, calls, park_at, nwriters, per_writer,
                nwriters as u64 - done.load(Ordering::SeqCst), nwriters, progress.load(Ordering::SeqCst)
            )
            .unwrap();
            // the blocked threads cannot be joined; they are left behind
        }
        writeln!(
            out,
            "stall round={} parked={} holder_calls={} maint_hashes={} expire={} stalled_at={} of {} finished_before_release={} bad={}",
            r, parked, calls, foreign, expire, stalled_at, nwriters as u64 * per_writer, finished_before, if ok { 0 } else { 1 }
        )
        .unwrap();
    }
}

// ---------------------------------------------------------------------------------------------
// `hammer`: tight real-thread loops with an online oracle (supporting search for a failing input;
// never a proof).  Three kinds of round, each a few tens of milliseconds:
//
//  watermark  one writer loops `insert(K, i); <clock tick>; invalidate_all(); upto = i`; readers
//             loop `a = upto; v = get(K)`: a value `v <= a` was discarded by an `invalidate_all`
//             that had returned before the `get` began (C01/C02/C07);
//  mono       one writer loops `insert(K, i); done = i` (no capacity): a reader that saw
//             `done = a` before its `get` must get `Some(v)` with `v >= a`, and the values one
//             reader sees never go backwards (C02);
//  syncs      writers insert distinct keys while other threads call `sync()` in a loop (explicit
//             maintenance beside the housekeeping of the writers): no panic (the library's own
//             debug assertions are on), and at quiescence `entry_count()` / `weighted_size()`
//             agree with the residents (C08/C10).
//
// Output: `hammer round=<r> kind=<k> ops=<n> bad=<b>`, preceded by `hammer-bad …` lines.
// ---------------------------------------------------------------------------------------------
pub fn run_hammer<W: std::io::Write>(seed: u64, rounds: u64, out: &mut W) {
    use std::sync::atomic::AtomicBool;
    use std::time::{Duration, Instant};
    for r in 0..rounds {
        let mut rng = Rng::new(splitmix(seed.wrapping_mul(32452843).wrapping_add(r)));
        let kind = ["watermark", "mono", "syncs", "drops", "racing", "revive"][(r % 6) as usize];
        let millis = 30 + rng.below(50);
        let readers = 2 + rng.below(2) as usize;
        let stop = Arc::new(AtomicBool::new(false));
        let mut bad: Vec<String> = Vec::new();
        let mut ops = 0u64;
        match kind {
            "watermark" | "mono" => {
                let wm = kind == "watermark";
                let mut b = SCache::<u64, u64>::builder();
                if wm && rng.chance(1, 2) {
                    b = b.max_capacity(100);
                }
                if wm && rng.chance(1, 3) {
                    b = b.time_to_live(Duration::from_secs(30));
                }
                let cache = b.build_with_hasher(VBuildHasher(HashKind::Mix));
                for k in 1..20u64 {
                    cache.insert(1000 + k, k);
                }
                let mark = Arc::new(AtomicU64::new(0));
                let key = rng.below(4);
                let mut hs = Vec::new();
                for _ in 0..readers {
                    let c = cache.clone();
                    let st = Arc::clone(&stop);
                    let mk = Arc::clone(&mark);
                    hs.push(std::thread::spawn(move || {
                        let mut n = 0u64;
                        let mut last = 0u64;
                        let mut bad: Option<String> = None;
                        while !st.load(Ordering::Relaxed) {
                            let a = mk.load(Ordering::SeqCst);
                            let v = c.get(&key);
                            n += 1;
                            match v {
                                Some(v) if wm && v <= a => {
                                    bad = Some(format!("get returned {} although every value up to {} had been discarded by an invalidate_all that returned before the get began", v, a));
                                    break;
                                }
                                Some(v) if !wm && (v < a || v < last) => {
                                    bad = Some(format!("get returned {} after insert {} had completed (previously seen {})", v, a, last));
                                    break;
                                }
                                None if !wm && a > 0 => {
                                    bad = Some(format!("get returned none after insert {} had completed (no capacity, no expiry, no invalidation)", a));
                                    break;
                                }
                                Some(v) => last = v,
                                None => {}
                            }
                        }
                        (n, bad)
                    }));
                }
                let t0 = Instant::now();
                let mut i = 0u64;
                while t0.elapsed() < Duration::from_millis(millis) {
                    i += 1;
                    cache.insert(key, i);
                    if wm {
                        // invalidate_all discards what was written at a strictly earlier clock reading
                        let t = Instant::now();
                        while t.elapsed() < Duration::from_nanos(300) {
                            std::hint::spin_loop();
                        }
                        cache.invalidate_all();
                    }
                    mark.store(i, Ordering::SeqCst);
                }
                stop.store(true, Ordering::Relaxed);
                ops += i;
                for h in hs {
                    match h.join() {
                        Ok((n, b)) => {
                            ops += n;
                            if let Some(b) = b {
                                bad.push(b);
                            }
                        }
                        Err(_) => bad.push("a reader thread panicked".into()),
                    }
                }
            }
            "drops" => {
                // instrumented keys and values (process-wide live counters): threads insert, update,
                // invalidate and read overlapping keys of a small bounded cache; at quiescence the
                // live key and value objects are exactly the resident entries, after the last handle
                // is dropped there are none (C11)
                crate::types::reset_counters();
                let cap = 4 + rng.below(40);
                let cache = SCache::<VKey, VVal>::builder().max_capacity(cap)
                    .build_with_hasher(VBuildHasher(HashKind::Mix));
                let nthreads = 2 + rng.below(3);
                let nkeys = 2 + rng.below(cap * 2);
                let mut hs = Vec::new();
                for w in 0..nthreads {
                    let c = cache.clone();
                    let st = Arc::clone(&stop);
                    hs.push(std::thread::spawn(move || {
                        let mut n = 0u64;
                        while !st.load(Ordering::Relaxed) {
                            let k = (n * 7 + w * 3) % nkeys;
                            match (n + w) % 6 {
                                0 => c.invalidate(&VKey::new(k)),
                                1 => {
                                    let _ = c.get(&VKey::new(k));
                                }
                                5 if n % 50 == 0 => c.sync(),
                                _ => c.insert(VKey::new(k), VVal::new(n)),
                            }
                            n += 1;
                        }
                        n
                    }));
                }
                std::thread::sleep(Duration::from_millis(millis));
                stop.store(true, Ordering::Relaxed);
                let t0 = Instant::now();
                while hs.iter().any(|h| !h.is_finished()) && t0.elapsed() < Duration::from_secs(8) {
                    std::thread::sleep(Duration::from_millis(5));
                }
                if hs.iter().any(|h| !h.is_finished()) {
                    writeln!(out, "hammer-bad round={} kind={} a thread did not return from a cache call within 8 s after the round ended", r, kind).unwrap();
                    writeln!(out, "hammer round={} kind={} ops={} bad=1", r, kind, ops).unwrap();
                    out.flush().unwrap();
                    std::process::exit(0);
                }
                for h in hs {
                    match h.join() {
                        Ok(n) => ops += n,
                        Err(_) => bad.push("a thread panicked inside the cache".into()),
                    }
                }
                if bad.is_empty() {
                    cache.sync();
                    cache.sync();
                    let resident = cache.iter().count() as i64;
                    let (lk, lv) = (KEY_LIVE.load(Ordering::SeqCst), VAL_LIVE.load(Ordering::SeqCst));
                    if lk != resident || lv != resident {
                        bad.push(format!("at quiescence {} key objects and {} value objects are alive for {} resident entries (entry_count {})", lk, lv, resident, cache.entry_count()));
                    }
                    // everything invalidated: once maintenance has run nothing may stay alive (an entry
                    // that sits in the map without its list nodes is never purged)
                    std::thread::sleep(Duration::from_micros(50));
                    cache.invalidate_all();
                    cache.sync();
                    cache.sync();
                    let resident = cache.iter().count() as i64;
                    let (lk, lv) = (KEY_LIVE.load(Ordering::SeqCst), VAL_LIVE.load(Ordering::SeqCst));
                    if resident != 0 || lk != 0 || lv != 0 {
                        bad.push(format!("after invalidate_all and two maintenance runs {} key objects and {} value objects are alive ({} entries iterated, entry_count {})", lk, lv, resident, cache.entry_count()));
                    }
                    drop(cache);
                    let (lk, lv) = (KEY_LIVE.load(Ordering::SeqCst), VAL_LIVE.load(Ordering::SeqCst));
                    if lk != 0 || lv != 0 {
                        bad.push(format!("after the cache was dropped {} key objects and {} value objects are still alive", lk, lv));
                    }
                }
            }
            "revive" => {
                // one thread loops: invalidate_all(); re-insert a few keys (updates of entries that
                // are invalidated but still in the map); then looks them up and iterates: every key
                // must be there with the value just written — nobody else writes or invalidates.
                // The other threads only call sync(): maintenance sweeping the invalidated entries
                // races with the updates that revive them (C03 / C16: no spurious loss, iteration
                // yields every resident key once).
                let mut b = SCache::<u64, u64>::builder();
                if rng.chance(1, 2) {
                    b = b.time_to_live(Duration::from_secs(60));
                }
                let cache = b.build_with_hasher(VBuildHasher(HashKind::Mix));
                let nkeys = 2 + rng.below(6);
                let mut hs = Vec::new();
                for _ in 0..readers {
                    let c = cache.clone();
                    let st = Arc::clone(&stop);
                    hs.push(std::thread::spawn(move || {
                        let mut n = 0u64;
                        while !st.load(Ordering::Relaxed) {
                            c.sync();
                            n += 1;
                        }
                        n
                    }));
                }
                let t0 = Instant::now();
                let mut round = 0u64;
                while t0.elapsed() < Duration::from_millis(millis) && bad.is_empty() {
                    round += 1;
                    cache.invalidate_all();
                    for k in 0..nkeys {
                        cache.insert(k, round * 100 + k);
                    }
                    for k in 0..nkeys {
                        let v = cache.get(&k);
                        if v != Some(round * 100 + k) {
                            bad.push(format!("round {}: get({}) returned {:?} right after insert({}, {}) had returned (no capacity, nothing else writes or invalidates)", round, k, v, k, round * 100 + k));
                            break;
                        }
                    }
                    if bad.is_empty() {
                        let mut seen: Vec<(u64, u64)> = cache.iter().map(|e| (*e.key(), *e.value())).collect();
                        seen.sort();
                        let want: Vec<(u64, u64)> = (0..nkeys).map(|k| (k, round * 100 + k)).collect();
                        if seen != want {
                            bad.push(format!("round {}: iteration yielded {:?}, the cache holds {:?}", round, seen, want));
                        }
                    }
                    ops += 3 * nkeys + 2;
                }
                stop.store(true, Ordering::Relaxed);
                for h in hs {
                    match h.join() {
                        Ok(n) => ops += n,
                        Err(_) => bad.push("a thread panicked inside the cache".into()),
                    }
                }
            }
            "racing" => {
                // one thread inserts fresh keys, the others overwrite the key it inserted last: the
                // map step of an update meets the maintenance run that is admitting that key's first
                // write (the entry's flags and accounted weight have two kinds of writers). At
                // quiescence the counters must equal the residents (C10).
                let weighted = rng.chance(1, 2);
                let mut b = SCache::<u64, u64>::builder();
                if rng.chance(1, 2) {
                    b = b.max_capacity(100_000);
                }
                if weighted {
                    b = b.weigher(|_k: &u64, v: &u64| (*v % 4) as u32);
                }
                let cache = b.build_with_hasher(VBuildHasher(HashKind::Mix));
                let latest = Arc::new(AtomicU64::new(0));
                let mut hs = Vec::new();
                {
                    let c = cache.clone();
                    let st = Arc::clone(&stop);
                    let l = Arc::clone(&latest);
                    hs.push(std::thread::spawn(move || {
                        let mut n = 0u64;
                        while !st.load(Ordering::Relaxed) && n < 60_000 {
                            c.insert(n, n);
                            l.store(n, Ordering::Release);
                            n += 1;
                        }
                        n
                    }));
                }
                for w in 0..(1 + readers as u64) {
                    let c = cache.clone();
                    let st = Arc::clone(&stop);
                    let l = Arc::clone(&latest);
                    hs.push(std::thread::spawn(move || {
                        let mut n = 0u64;
                        while !st.load(Ordering::Relaxed) {
                            let k = l.load(Ordering::Acquire);
                            c.insert(k, n * 4 + w);
                            n += 1;
                        }
                        n
                    }));
                }
                std::thread::sleep(Duration::from_millis(millis));
                stop.store(true, Ordering::Relaxed);
                let t0 = Instant::now();
                while hs.iter().any(|h| !h.is_finished()) && t0.elapsed() < Duration::from_secs(8) {
                    std::thread::sleep(Duration::from_millis(5));
                }
                if hs.iter().any(|h| !h.is_finished()) {
                    writeln!(out, "hammer-bad round={} kind={} a thread did not return from a cache call within 8 s after the round ended", r, kind).unwrap();
                    writeln!(out, "hammer round={} kind={} ops={} bad=1", r, kind, ops).unwrap();
                    out.flush().unwrap();
                    std::process::exit(0);
                }
                for h in hs {
                    match h.join() {
                        Ok(n) => ops += n,
                        Err(_) => bad.push("a thread panicked inside the cache".into()),
                    }
                }
                if bad.is_empty() {
                    let q = std::panic::catch_unwind(std::panic::AssertUnwindSafe(|| {
                        cache.sync();
                        cache.sync();
                        cache.sync();
                        let resident: Vec<(u64, u64)> = cache.iter().map(|e| (*e.key(), *e.value())).collect();
                        let wsum: u64 = resident.iter().map(|(_, v)| if weighted { v % 4 } else { 1 }).sum();
                        (cache.entry_count(), cache.weighted_size(), resident.len() as u64, wsum)
                    }));
                    match q {
                        Ok((ec, ws, n, wsum)) => {
                            if ec != n || ws != wsum {
                                bad.push(format!("quiescent counters differ from residents: ec={} ws={} resident={} weight={}", ec, ws, n, wsum));
                            }
                        }
                        Err(_) => bad.push("panic at quiescence".into()),
                    }
                }
            }
            _ => {
                let cap = 50 + rng.below(400);
                let weighted = rng.chance(1, 2);
                let mut b = SCache::<u64, u64>::builder().max_capacity(cap);
                if weighted {
                    b = b.weigher(|_k: &u64, v: &u64| (*v % 4) as u32);
                }
                let cache = b.build_with_hasher(VBuildHasher(HashKind::Mix));
                let writers = 2 + rng.below(2) as u64;
                let mut hs = Vec::new();
                for w in 0..writers {
                    let c = cache.clone();
                    let st = Arc::clone(&stop);
                    hs.push(std::thread::spawn(move || {
                        let mut n = 0u64;
                        while !st.load(Ordering::Relaxed) {
                            let k = w * 1_000_000 + n % 700;
                            match n % 5 {
                                0 => c.invalidate(&k),
                                1 => {
                                    let _ = c.get(&k);
                                }
                                _ => c.insert(k, n),
                            }
                            n += 1;
                        }
                        n
                    }));
                }
                for _ in 0..readers {
                    let c = cache.clone();
                    let st = Arc::clone(&stop);
                    hs.push(std::thread::spawn(move || {
                        let mut n = 0u64;
                        while !st.load(Ordering::Relaxed) {
                            c.sync();
                            n += 1;
                        }
                        n
                    }));
                }
                std::thread::sleep(Duration::from_millis(millis));
                stop.store(true, Ordering::Relaxed);
                // a panic inside a maintenance run can leave the others spinning for ever: wait
                // a bounded time for them, report, and end the process if some never return
                let t0 = Instant::now();
                while hs.iter().any(|h| !h.is_finished()) && t0.elapsed() < Duration::from_secs(8) {
                    std::thread::sleep(Duration::from_millis(5));
                }
                let stuck = hs.iter().filter(|h| !h.is_finished()).count();
                if stuck > 0 {
                    for h in hs {
                        if h.is_finished() {
                            if let Err(e) = h.join() {
                                let msg = e.downcast_ref::<String>().cloned()
                                    .or_else(|| e.downcast_ref::<&str>().map(|s| s.to_string()))
                                    .unwrap_or_else(|| "?".into());
                                writeln!(out, "hammer-bad round={} kind={} a thread panicked inside the cache: {}", r, kind, msg.replace('\n', " ")).unwrap();
                            }
                        }
                    }
                    writeln!(out, "hammer-bad round={} kind={} {} thread(s) did not return from a cache call within 8 s after the round ended", r, kind, stuck).unwrap();
                    writeln!(out, "hammer round={} kind={} ops={} bad={}", r, kind, ops, stuck).unwrap();
                    out.flush().unwrap();
                    std::process::exit(0);
                }
                for h in hs {
                    match h.join() {
                        Ok(n) => ops += n,
                        Err(e) => {
                            let msg = e.downcast_ref::<String>().cloned()
                                .or_else(|| e.downcast_ref::<&str>().map(|s| s.to_string()))
                                .unwrap_or_else(|| "?".into());
                            bad.push(format!("a thread panicked inside the cache: {}", msg.replace('\n', " ")));
                        }
                    }
                }
                if bad.is_empty() {
                    // epilogue: one thread alone issues a burst far longer than the write channel and
                    // never calls sync(): its own calls must run the maintenance (whatever the
                    // threads that have left did to the housekeeper's flag, it must be free again)
                    let c = cache.clone();
                    let burst = std::thread::spawn(move || {
                        for i in 0..1500u64 {
                            c.insert(9_000_000 + i, i);
                        }
                    });
                    let t0 = Instant::now();
                    while !burst.is_finished() && t0.elapsed() < Duration::from_secs(8) {
                        std::thread::sleep(Duration::from_millis(2));
                    }
                    if !burst.is_finished() {
                        writeln!(out, "hammer-bad round={} kind={} after the threads had left, a burst of 1500 inserts by one thread (no sync() call) did not complete within 8 s", r, kind).unwrap();
                        writeln!(out, "hammer round={} kind={} ops={} bad=1", r, kind, ops).unwrap();
                        out.flush().unwrap();
                        std::process::exit(0);
                    }
                    let _ = burst.join();
                }
                if bad.is_empty() {
                    let q = std::panic::catch_unwind(std::panic::AssertUnwindSafe(|| {
                        cache.sync();
                        cache.sync();
                        let resident: Vec<(u64, u64)> = cache.iter().map(|e| (*e.key(), *e.value())).collect();
                        let wsum: u64 = resident.iter().map(|(_, v)| if weighted { v % 4 } else { 1 }).sum();
                        (cache.entry_count(), cache.weighted_size(), resident.len() as u64, wsum)
                    }));
                    match q {
                        Ok((ec, ws, n, wsum)) => {
                            if ec != n || ws != wsum {
                                bad.push(format!("quiescent counters differ from residents: ec={} ws={} resident={} weight={}", ec, ws, n, wsum));
                            }
                        }
                        Err(_) => bad.push("panic at quiescence".into()),
                    }
                }
            }
        }
        for b in &bad {
            writeln!(out, "hammer-bad round={} kind={} {}", r, kind, b).unwrap();
        }
        writeln!(out, "hammer round={} kind={} ops={} bad={}", r, kind, ops, bad.len()).unwrap();
    }
}
