//! History generators. Every choice derives from one PRNG state.

use crate::types::*;

pub const SEC: u64 = 1_000_000_000;

#[derive(Clone, Copy, Debug, PartialEq, Eq)]
pub enum Profile {
    Mixed,
    Burst,
    Synced,
    Boundary,
    Churn,
    Growth,
    Scan,
    Big,
    Batch,
    Oversize,
    Regrow,
    Growexp,
    Expnext,
    Lateread,
    Aging,
    Monoburst,
    Dangling,
    Overfill,
    Stamp,
}

pub const PROFILES: [Profile; 8] = [
    Profile::Mixed,
    Profile::Burst,
    Profile::Synced,
    Profile::Boundary,
    Profile::Churn,
    Profile::Growth,
    Profile::Scan,
    Profile::Big,
];

impl Profile {
    pub fn parse(s: &str) -> Option<Self> {
        Some(match s {
            "mixed" => Self::Mixed,
            "burst" => Self::Burst,
            "synced" => Self::Synced,
            "boundary" => Self::Boundary,
            "churn" => Self::Churn,
            "growth" => Self::Growth,
            "scan" => Self::Scan,
            "big" => Self::Big,
            "batch" => Self::Batch,
            "oversize" => Self::Oversize,
            "regrow" => Self::Regrow,
            "growexp" => Self::Growexp,
            "expnext" => Self::Expnext,
            "lateread" => Self::Lateread,
            "aging" => Self::Aging,
            "monoburst" => Self::Monoburst,
            "dangling" => Self::Dangling,
            "overfill" => Self::Overfill,
            "stamp" => Self::Stamp,
            _ => return None,
        })
    }
    pub fn name(&self) -> &'static str {
        match self {
            Self::Mixed => "mixed",
            Self::Burst => "burst",
            Self::Synced => "synced",
            Self::Boundary => "boundary",
            Self::Churn => "churn",
            Self::Growth => "growth",
            Self::Scan => "scan",
            Self::Big => "big",
            Self::Batch => "batch",
            Self::Oversize => "oversize",
            Self::Regrow => "regrow",
            Self::Growexp => "growexp",
            Self::Expnext => "expnext",
            Self::Lateread => "lateread",
            Self::Aging => "aging",
            Self::Monoburst => "monoburst",
            Self::Dangling => "dangling",
            Self::Overfill => "overfill",
            Self::Stamp => "stamp",
        }
    }
}

pub struct GenCfg {
    pub kind: &'static str,
    pub cap: Option<u64>,
    pub weigher: WeigherKind,
    pub ttl: Option<u64>,
    pub tti: Option<u64>,
    pub hash: HashKind,
    pub initcap: Option<u64>,
}

impl GenCfg {
    pub fn line(&self, seed: u64, profile: Profile) -> String {
        let o = |x: Option<u64>| x.map(|v| v.to_string()).unwrap_or_else(|| "none".into());
        let ic = match self.initcap {
            Some(i) => format!(" initcap={}", i),
            None => String::new(),
        };
        format!(
            "cfg kind={} cap={} w={} ttl={} tti={} hash={}{} profile={} seed={}",
            self.kind,
            o(self.cap),
            self.weigher.name(),
            o(self.ttl),
            o(self.tti),
            self.hash.name(),
            ic,
            profile.name(),
            seed
        )
    }
}

pub fn gen_cfg(rng: &mut Rng, kind: &'static str, profile: Profile, capmode: &str) -> GenCfg {
    let cap = match profile {
        _ if capmode == "none" => None,
        _ if capmode == "large" => Some(rng.pick(&[100_000u64, 1_000_000])),
        Profile::Big => Some(rng.pick(&[129u64, 150, 200, 256])),
        Profile::Regrow => Some(rng.pick(&[600u64, 1000, 1500])),
        Profile::Batch => rng.pick(&[None, Some(1000u64), Some(400), Some(130)]),
        Profile::Scan => Some(rng.pick(&[2u64, 3, 4, 5, 8])),
        Profile::Oversize => Some(rng.pick(&[1u64, 2, 3, 5, 8, 10])),
        Profile::Growexp => Some(rng.pick(&[6u64, 8, 10, 12, 16])),
        Profile::Aging => Some(rng.pick(&[10u64, 20, 30])),
        Profile::Dangling => Some(rng.pick(&[3u64, 4, 5, 6])),
        Profile::Overfill => Some(rng.pick(&[6u64, 8, 10, 12])),
        _ => match rng.below(12) {
            0 => None,
            1 => Some(0),
            2 => Some(1),
            3 | 4 => Some(2),
            5 | 6 => Some(3),
            7 => Some(5),
            8 => Some(8),
            9 => Some(16),
            10 => Some(4),
            _ => Some(6),
        },
    };
    let c = cap.unwrap_or(8);
    let weigher = match profile {
        Profile::Oversize | Profile::Regrow | Profile::Growexp | Profile::Overfill => WeigherKind::Val,
        Profile::Growth => rng.pick(&[
            WeigherKind::VMod(4),
            WeigherKind::VMod(c + 2),
            WeigherKind::Val,
        ]),
        Profile::Big => WeigherKind::None,
        Profile::Dangling => rng.pick(&[WeigherKind::None, WeigherKind::None, WeigherKind::Const(1)]),
        Profile::Aging => rng.pick(&[WeigherKind::Const(2), WeigherKind::None, WeigherKind::Const(2)]),
        Profile::Batch => {
            if rng.chance(1, 3) { WeigherKind::Val } else { WeigherKind::None }
        }
        _ => match rng.below(8) {
            0..=2 => WeigherKind::None,
            3 => WeigherKind::Const(0),
            4 => WeigherKind::VMod(4),
            5 => WeigherKind::VMod(c + 2),
            6 => WeigherKind::KMod(3),
            _ => WeigherKind::Const(2),
        },
    };
    // With max_capacity = 0 and a value-dependent weigher, in-place updates make
    // weighted_size > 0, and the sketch is then sized from `ws / 0.0 = inf`: an 8 GiB
    // table. That is resource exhaustion, outside the model; keep weights fixed there.
    let weigher = match (cap, weigher) {
        (Some(0), WeigherKind::VMod(_)) | (Some(0), WeigherKind::Val) => WeigherKind::Const(0),
        (_, w) => w,
    };
    let durs = [0u64, SEC, 3 * SEC, 10 * SEC];
    let (ttl, tti) = match profile {
        Profile::Batch if weigher == WeigherKind::Val && rng.chance(1, 2) => (None, None),
        Profile::Batch => match rng.below(4) {
            0 => (Some(rng.pick(&[SEC, 3 * SEC])), None),
            1 => (None, Some(rng.pick(&[SEC, 3 * SEC]))),
            2 => (Some(SEC), Some(3 * SEC)),
            _ => (Some(3 * SEC), Some(SEC)),
        },
        Profile::Regrow | Profile::Aging | Profile::Dangling | Profile::Overfill => (None, None),
        Profile::Lateread => match rng.below(3) {
            0 => (None, Some(rng.pick(&[SEC, 3 * SEC]))),
            1 => (Some(10 * SEC), Some(rng.pick(&[SEC, 3 * SEC]))),
            _ => (Some(3 * SEC), Some(SEC)),
        },
        Profile::Expnext => match rng.below(4) {
            0 => (None, None),
            1 => (Some(rng.pick(&[SEC, 3 * SEC])), None),
            2 => (None, Some(rng.pick(&[SEC, 3 * SEC]))),
            _ => (Some(3 * SEC), Some(SEC)),
        },
        Profile::Growexp => match rng.below(3) {
            0 => (Some(rng.pick(&[2 * SEC, 3 * SEC])), None),
            1 => (None, Some(rng.pick(&[2 * SEC, 3 * SEC]))),
            _ => (Some(3 * SEC), Some(2 * SEC)),
        },
        Profile::Boundary => match rng.below(3) {
            0 => (Some(rng.pick(&durs)), None),
            1 => (None, Some(rng.pick(&durs))),
            _ => (Some(rng.pick(&durs)), Some(rng.pick(&durs))),
        },
        _ => {
            let t = if rng.chance(1, 3) { Some(rng.pick(&durs)) } else { None };
            let i = if rng.chance(1, 3) { Some(rng.pick(&durs)) } else { None };
            (t, i)
        }
    };
    let hash = match rng.below(8) {
        0..=2 => HashKind::Id,
        3 | 4 => HashKind::Mix,
        5 => HashKind::Const,
        6 => HashKind::Mod2,
        _ => HashKind::Top,
    };
    let hash = if profile == Profile::Dangling && hash != HashKind::Mix { HashKind::Id } else { hash };
    GenCfg { kind, cap, weigher, ttl, tti, hash, initcap: None }
}

/// One generated case: the cfg line followed by op lines (a `snap` after each op when
/// `white_box`).
pub fn gen_case(seed: u64, kind: &'static str, profile: Profile, len: usize, white_box: bool, capmode: &str) -> Vec<String> {
    let mut rng = Rng::new(seed);
    let mut cfg = gen_cfg(&mut rng, kind, profile, capmode);
    {
        // `initial_capacity` (C17: no observable effect) from an independent stream, so that the
        // histories of a seed are the same with and without it
        let mut r2 = Rng::new(splitmix(seed ^ 0x1ca9_ac17));
        if profile == Profile::Aging {
            cfg.initcap = Some(r2.pick(&[1000u64, 200, 5000]));
        } else if r2.chance(1, 3) {
            let c = cfg.cap.unwrap_or(16).min(100_000);
            cfg.initcap = Some(r2.pick(&[0, 1, c / 2, c / 2 + 1, c, c.saturating_mul(4), 1000]));
        }
    }
    let mut out = vec![cfg.line(seed, profile)];
    let sync = kind == "sync";
    let nkeys: u64 = match profile {
        Profile::Big => 150 + rng.below(550),
        Profile::Scan => 12 + rng.below(20),
        _ => 2 + rng.below(11),
    };
    let hot: u64 = 1 + rng.below(3.min(nkeys));
    let len = match profile {
        Profile::Big => len * 12,
        Profile::Burst => len * 2,
        _ => len,
    };
    let push = |out: &mut Vec<String>, s: String| {
        out.push(s);
        if white_box {
            out.push("snap".into());
        }
    };
    let key = |rng: &mut Rng| -> u64 {
        match profile {
            Profile::Scan => {
                if rng.chance(1, 2) { rng.below(hot) } else { hot + rng.below(nkeys) }
            }
            Profile::Churn => rng.below(2.max(nkeys / 3)),
            _ => rng.below(nkeys),
        }
    };
    let step_choices: Vec<u64> = match profile {
        Profile::Boundary | Profile::Batch => {
            let mut v = vec![SEC, SEC / 2, 500_000_000, 1, SEC - 1];
            if let Some(t) = cfg.ttl { v.push(t); v.push(t.saturating_sub(1)); v.push(t + 1); }
            if let Some(t) = cfg.tti { v.push(t); v.push(t.saturating_sub(1)); v.push(t + 1); }
            v
        }
        _ => vec![SEC, SEC / 2, 2 * SEC, 100_000_000, 500_000_000, 3 * SEC, 501_000_000],
    };
    if profile == Profile::Oversize {
        // Few keys, values that weigh 0, a little, exactly the capacity, and far more than the
        // capacity; updates and invalidations follow each other with the earlier ops still
        // queued (no clock step inside a round: the housekeeper window stays open).
        let c = cfg.cap.unwrap_or(4);
        let vals = [0u64, 1, 1, 2, c, c + 1, c * 2 + 3, 20];
        for _ in 0..len {
            let k = rng.below(nkeys.min(4));
            match rng.below(16) {
                0..=6 => push(&mut out, format!("ins {} {}", k, rng.pick(&vals))),
                7 | 8 => push(&mut out, format!("inv {}", k)),
                9 | 10 => push(&mut out, format!("get {}", k)),
                11 => push(&mut out, format!("has {}", k)),
                12 => push(&mut out, "iter".into()),
                13 => {
                    if sync { push(&mut out, "sync".into()) } else { push(&mut out, format!("get {}", k)) }
                }
                14 => out.push(format!("adv {}", rng.pick(&[1u64, 100_000_000, 600_000_000]))),
                _ => push(&mut out, format!("ins {} {}", rng.below(nkeys), rng.below(3))),
            }
        }
        if sync {
            out.push("sync".into());
            out.push("snap".into());
        }
        out.push("iter".into());
        out.push("drop".into());
        return out;
    }
    if profile == Profile::Monoburst {
        // Bursts of ONE kind of call far longer than the bounded channels (384 slots), with no
        // other call in between: only invalidations, only updates, only lookups, only fresh
        // inserts — inside and outside the housekeeping window. Every call must return: a writer
        // that meets a full channel has to run the pending maintenance itself, whatever it sends.
        let n = 420 + rng.below(260);
        for i in 0..n {
            out.push(format!("ins {} {}", i, i % 5));
            if sync && i % 50 == 49 {
                out.push("sync".into());
            }
        }
        if sync {
            out.push("sync".into());
        }
        out.push("snap".into());
        if rng.chance(1, 2) {
            out.push("adv 600000000".into());
        }
        match rng.below(4) {
            0 | 1 => {
                for i in 0..n {
                    out.push(format!("inv {}", i));
                }
            }
            2 => {
                for i in 0..n {
                    out.push(format!("get {}", i));
                }
            }
            _ => {
                for i in 0..n {
                    out.push(format!("ins {} {}", i, (i + 1) % 5));
                }
            }
        }
        out.push("snap".into());
        if sync {
            out.push("sync".into());
            out.push("snap".into());
        }
        out.push("iter".into());
        out.push("drop".into());
        return out;
    }
    if profile == Profile::Monoburst {
        // Bursts of ONE kind of call far longer than the bounded channels (384 slots), with no
        // other call in between: only invalidations, only updates, only lookups, only fresh
        // inserts — inside and outside the housekeeping window. Every call must return: a writer
        // that meets a full channel has to run the pending maintenance itself, whatever it sends.
        let n = 420 + rng.below(260);
        for i in 0..n {
            out.push(format!("ins {} {}", i, i % 5));
            if sync && i % 50 == 49 {
                out.push("sync".into());
            }
        }
        if sync {
            out.push("sync".into());
        }
        out.push("snap".into());
        if rng.chance(1, 2) {
            out.push("adv 600000000".into());
        }
        match rng.below(4) {
            0 | 1 => {
                for i in 0..n {
                    out.push(format!("inv {}", i));
                }
            }
            2 => {
                for i in 0..n {
                    out.push(format!("get {}", i));
                }
            }
            _ => {
                for i in 0..n {
                    out.push(format!("ins {} {}", i, (i + 1) % 5));
                }
            }
        }
        out.push("snap".into());
        if sync {
            out.push("sync".into());
            out.push("snap".into());
        }
        out.push("iter".into());
        out.push("drop".into());
        return out;
    }
    if profile == Profile::Aging {
        // More lookups than one aging period of the minimal sketch (10 x 128 increments): a full
        // cache, a resident read a few times and then left to become the eviction candidate, well
        // over a thousand lookups of absent keys, then a newcomer read about as often as that
        // resident was, and its insert: whether it is admitted depends on the aging of the sketch.
        let c = cfg.cap.unwrap_or(20);
        let per = if cfg.weigher == WeigherKind::None { 1 } else { 2 };
        let nres = (c / per).max(2);
        for i in 0..nres {
            out.push(format!("ins {} {}", i, i % 7));
        }
        if sync {
            out.push("sync".into());
        }
        let r = 4 + rng.below(5);
        for _ in 0..r {
            out.push(format!("get {}", 0));
        }
        for i in 1..nres {
            out.push(format!("get {}", i));
        }
        if sync {
            out.push("sync".into());
        }
        out.push("snap".into());
        let misses = 1250 + rng.below(400);
        for i in 0..misses {
            out.push(format!("get {}", 100_000 + i % 977));
            if sync && i % 50 == 49 {
                out.push("sync".into());
            }
        }
        out.push("snap".into());
        let cand = 5000 + rng.below(5);
        let cr = r - rng.below(3);
        for _ in 0..cr {
            out.push(format!("get {}", cand));
        }
        if sync {
            out.push("sync".into());
        }
        if white_box {
            out.push(format!("freq {}", cand));
        }
        push(&mut out, format!("ins {} 1", cand));
        if sync {
            push(&mut out, "sync".into());
        }
        push(&mut out, format!("get {}", cand));
        push(&mut out, format!("get {}", 0));
        out.push("iter".into());
        out.push("drop".into());
        return out;
    }
    if profile == Profile::Lateread {
        // A hit recorded shortly before the idle deadline and still waiting to be applied when the
        // ORIGINAL deadline passes (the concurrent cache applies reads at the next maintenance; the
        // single-threaded one at once): in that window the entry looks expired although the
        // recorded read will revive it. Then an invalidation, lookup, update or iteration of that
        // key, then maintenance, then lookups.
        let tti = cfg.tti.unwrap_or(SEC);
        let rounds = 2 + len / 12;
        for _ in 0..rounds {
            let k = rng.below(nkeys);
            if white_box {
                out.push(format!("freq {}", k));
            }
            push(&mut out, format!("ins {} {}", k, rng.below(12)));
            if sync && rng.chance(3, 4) {
                push(&mut out, "sync".into());
            }
            // leave the housekeeping window, then go to just before the deadline
            out.push("adv 600000000".into());
            let before = rng.pick(&[1u64, 1000, 100_000_000]);
            out.push(format!("adv {}", tti - 600_000_000 - before));
            push(&mut out, format!("get {}", k));
            let after = rng.pick(&[0u64, 1, 1000, 200_000_000]);
            out.push(format!("adv {}", before + after));
            if white_box {
                out.push("snap".into());
            }
            match rng.below(7) {
                0 | 1 => push(&mut out, format!("inv {}", k)),
                2 => push(&mut out, format!("has {}", k)),
                3 => push(&mut out, format!("get {}", k)),
                4 => push(&mut out, format!("ins {} {}", k, rng.below(12))),
                5 => push(&mut out, "iter".into()),
                _ => push(&mut out, format!("ins {} 1", nkeys + rng.below(3))),
            }
            if sync {
                push(&mut out, "sync".into());
            }
            push(&mut out, format!("get {}", k));
            push(&mut out, format!("has {}", k));
            push(&mut out, "iter".into());
            if rng.chance(1, 2) {
                out.push(format!("adv {}", rng.pick(&[tti / 2, tti])));
                push(&mut out, format!("get {}", k));
            }
        }
        if sync {
            out.push("sync".into());
            out.push("snap".into());
        }
        out.push("iter".into());
        out.push("drop".into());
        return out;
    }
    if profile == Profile::Dangling {
        // A contested admission that meets a node whose entry is no longer the map's: a full cache
        // with the sketch on, residents of graded popularity (the LRU one the most popular), a
        // newcomer looked up a few times, and - after the newcomer's insert, before the maintenance
        // that decides on it - the LRU resident(s) invalidated or overwritten. The victim scan then
        // walks over nodes it has to skip (invalidated: the Remove is still queued; overwritten: the
        // entry is dirty), and neither their weight nor their popularity may count.
        let c = cfg.cap.unwrap_or(4);
        let rounds = 2 + len / 16;
        let mut base = 0u64;
        for _ in 0..rounds {
            out.push("invall".into());
            out.push("adv 1000".into());
            if sync { out.push("sync".into()); }
            let ks: Vec<u64> = (0..c).map(|i| base + i).collect();
            let newcomer = base + c;
            base += c + 1;
            // fill; the first insert's maintenance turns the sketch on
            for &k in &ks {
                if white_box { out.push(format!("freq {}", k)); }
                push(&mut out, format!("ins {} {}", k, 1 + rng.below(3)));
                if sync { out.push("sync".into()); }
            }
            // graded popularity: the LRU resident is read most (reads would reorder: read in LRU
            // order, so that the order is preserved)
            let top = 2 + rng.below(3);
            let graded = rng.chance(2, 3);
            for (i, &k) in ks.iter().enumerate() {
                // every resident is read at least once two times out of three: the order then stays
                // the insertion order and the most popular resident is the LRU one
                let n = if i == 0 { top } else if graded { 1 } else { rng.below(2) };
                for _ in 0..n { push(&mut out, format!("get {}", k)); }
            }
            if sync { push(&mut out, "sync".into()); }
            let nl = if graded { 2 + rng.below(top - 1) } else { 1 + rng.below(top + 1) };
            for _ in 0..nl { push(&mut out, format!("get {}", newcomer)); }
            if sync { push(&mut out, "sync".into()); }
            if rng.chance(1, 2) { out.push("adv 600000000".into()); }   // leave the housekeeping window
            if white_box { out.push(format!("freq {}", newcomer)); }
            push(&mut out, format!("ins {} 1", newcomer));
            let nd = 1 + rng.below(2.min(c as u64 - 1));
            for i in 0..nd {
                let k = ks[i as usize];
                match rng.below(4) {
                    0 | 1 => push(&mut out, format!("inv {}", k)),
                    2 => {
                        if white_box { out.push(format!("freq {}", k)); }
                        push(&mut out, format!("ins {} {}", k, 5 + rng.below(3)))
                    }
                    _ => {
                        push(&mut out, format!("inv {}", k));
                        if white_box { out.push(format!("freq {}", k)); }
                        push(&mut out, format!("ins {} 9", k))
                    }
                }
            }
            if sync { push(&mut out, "sync".into()); }
            for &k in &ks { push(&mut out, format!("has {}", k)); }
            push(&mut out, format!("has {}", newcomer));
            push(&mut out, "iter".into());
        }
        if sync {
            out.push("sync".into());
            out.push("snap".into());
        }
        out.push("iter".into());
        out.push("drop".into());
        return out;
    }
    if profile == Profile::Overfill {
        // A key written twice with different weights before its first write has been applied
        // (inside or outside the housekeeping window, the two ops applied by one run or by two),
        // then the cache is filled with fresh unit-weight keys exactly up to the room the real
        // residents leave: every one of them fits (C03 part B), the counters must say what the
        // map holds (C10), nothing may be over capacity afterwards (C04).
        let c = cfg.cap.unwrap_or(8);
        let rounds = 2 + len / 16;
        let mut base = 0u64;
        for _ in 0..rounds {
            out.push("invall".into());
            out.push("adv 1000".into());
            if sync { out.push("sync".into()); }
            let k = base;
            base += 1;
            let heavy = c / 2 + rng.below(c / 2);
            let light = 1 + rng.below(2);
            let (first, second) = if rng.chance(2, 3) { (heavy, light) } else { (light, heavy) };
            if rng.chance(1, 2) { out.push("adv 600000000".into()); }
            if white_box { out.push(format!("freq {}", k)); }
            push(&mut out, format!("ins {} {}", k, first));
            if rng.chance(1, 4) { out.push("adv 600000000".into()); }
            if white_box { out.push(format!("freq {}", k)); }
            push(&mut out, format!("ins {} {}", k, second));
            if rng.chance(1, 3) {
                if white_box { out.push(format!("freq {}", k)); }
                push(&mut out, format!("ins {} {}", k, second));
            }
            if sync && rng.chance(2, 3) { push(&mut out, "sync".into()); }
            let room = c - second;
            let every = rng.chance(1, 2);
            for _ in 0..room {
                let f = base;
                base += 1;
                if white_box { out.push(format!("freq {}", f)); }
                push(&mut out, format!("ins {} 1", f));
                if sync && every { push(&mut out, "sync".into()); }
            }
            if sync { push(&mut out, "sync".into()); }
            push(&mut out, format!("has {}", k));
            push(&mut out, "iter".into());
        }
        if sync {
            out.push("sync".into());
            out.push("snap".into());
        }
        out.push("iter".into());
        out.push("drop".into());
        return out;
    }
    if profile == Profile::Expnext {
        // Everything resident becomes stale at once (invalidate_all, or the clock passes every
        // deadline) and the very next call is an invalidation, an update, a fresh insert, a lookup
        // or a sync of one of those keys, inside or outside the housekeeping window: the purge
        // loops then meet nodes whose entry has just left the map or has just been replaced.
        let rounds = 2 + len / 10;
        for _ in 0..rounds {
            let n = 1 + rng.below(4);
            let mut ks: Vec<u64> = Vec::new();
            for _ in 0..n {
                let k = rng.below(nkeys);
                if white_box {
                    out.push(format!("freq {}", k));
                }
                push(&mut out, format!("ins {} {}", k, rng.below(4)));
                ks.push(k);
            }
            if sync && rng.chance(3, 4) {
                push(&mut out, "sync".into());
            }
            if rng.chance(1, 3) {
                push(&mut out, format!("get {}", rng.pick(&ks)));
            }
            let far = rng.chance(1, 3);
            let by_clock = (cfg.ttl.is_some() || cfg.tti.is_some()) && rng.chance(1, 2);
            if by_clock {
                out.push(format!("adv {}", if far { 4 * SEC } else { 3 * SEC }));
                if sync && !far && rng.chance(1, 2) {
                    // stay inside the housekeeping window of a run that purged nothing yet
                    push(&mut out, format!("has {}", nkeys + 3));
                }
            } else {
                out.push(format!("adv {}", if far { 600_000_000 } else { 1000 }));
                push(&mut out, "invall".into());
            }
            let k = rng.pick(&ks);
            match rng.below(6) {
                0 | 1 => push(&mut out, format!("inv {}", k)),
                2 => push(&mut out, format!("ins {} {}", k, rng.below(4))),
                3 => push(&mut out, format!("ins {} 1", nkeys + rng.below(3))),
                4 => push(&mut out, format!("get {}", k)),
                _ => {
                    if sync { push(&mut out, "sync".into()) } else { push(&mut out, format!("has {}", k)) }
                }
            }
            push(&mut out, "iter".into());
            if sync && rng.chance(1, 2) {
                push(&mut out, "sync".into());
            }
        }
        if sync {
            out.push("sync".into());
            out.push("snap".into());
        }
        out.push("iter".into());
        out.push("drop".into());
        return out;
    }
    if profile == Profile::Growexp {
        // Size-aware eviction and expiry pending at the same time: residents written at different
        // clock readings fill a weighted cache, reads reorder them, an in-place update makes one
        // heavier (the cache is over capacity until the next operation), the clock passes the
        // deadline of some of them, and only then the next operation runs both purges.
        let c = cfg.cap.unwrap_or(10);
        let rounds = 2 + len / 12;
        for _ in 0..rounds {
            // start from an empty cache and fill it to the brim
            push(&mut out, "invall".into());
            if sync {
                push(&mut out, "sync".into());
            }
            out.push("adv 1000".into());
            let mut room = c;
            let mut ks: Vec<u64> = Vec::new();
            let mut wsv: Vec<u64> = Vec::new();
            let base = rng.below(nkeys);
            while room > 0 && ks.len() < 6 {
                let k = (base + ks.len() as u64) % nkeys.max(7);
                let w = if ks.len() == 5 || room <= 2 { room } else { 1 + rng.below(room.min(4)) };
                room -= w;
                if white_box {
                    out.push(format!("freq {}", k));
                }
                push(&mut out, format!("ins {} {}", k, w));
                ks.push(k);
                wsv.push(w);
                if rng.chance(1, 2) {
                    out.push(format!("adv {}", rng.pick(&[SEC / 2, SEC, SEC + SEC / 2])));
                }
            }
            if sync && rng.chance(2, 3) {
                push(&mut out, "sync".into());
            }
            for _ in 0..rng.below(3) {
                push(&mut out, format!("get {}", rng.pick(&ks)));
            }
            // the growing update: the cache is over capacity by 1..3 until the next operation
            let i = rng.below(ks.len() as u64) as usize;
            push(&mut out, format!("ins {} {}", ks[i], wsv[i] + 1 + rng.below(3)));
            out.push(format!("adv {}", rng.pick(&[SEC / 2, SEC, SEC + SEC / 2, 2 * SEC, 3 * SEC, 1])));
            if white_box {
                // the window rules look at `snap, operation, snap`
                out.push("snap".into());
            }
            match rng.below(5) {
                0 => push(&mut out, format!("has {}", rng.pick(&ks))),
                1 => push(&mut out, format!("get {}", rng.pick(&ks))),
                2 => push(&mut out, format!("ins {} 1", nkeys + 8 + rng.below(3))),
                3 => push(&mut out, format!("inv {}", rng.pick(&ks))),
                _ => {
                    if sync { push(&mut out, "sync".into()) } else { push(&mut out, format!("has {}", nkeys + 7)) }
                }
            }
            push(&mut out, "iter".into());
            if rng.chance(1, 3) {
                out.push(format!("adv {}", rng.pick(&[SEC, 3 * SEC])));
                push(&mut out, format!("get {}", rng.pick(&ks)));
            }
        }
        if sync {
            out.push("sync".into());
            out.push("snap".into());
        }
        out.push("iter".into());
        out.push("drop".into());
        return out;
    }
    if profile == Profile::Regrow && rng.chance(1, 2) {
        // Variant: the admission contest happens exactly when the number of entries passes the
        // length of the sketch table (128 slots, sized while the cache held five heavy entries):
        // five heavy entries, lookups of a key that is not resident, light entries until the cache
        // is full with 129 entries, then the popular key is inserted.
        let wh = 40 + rng.below(200);
        let extra = rng.below(3); // 129, 130 or 131 entries at the contest
        let c = 5 * wh + 124 + extra;
        cfg.cap = Some(c);
        out[0] = cfg.line(seed, profile);
        for i in 0..5 {
            push(&mut out, format!("ins {} {}", 1000 + i, wh));
        }
        if sync {
            out.push("sync".into());
        }
        let hotk = 7000 + rng.below(3);
        for _ in 0..(3 + rng.below(6)) {
            out.push(format!("get {}", hotk));
        }
        if sync {
            out.push("sync".into());
        }
        for i in 0..(124 + extra) {
            out.push(format!("ins {} 1", 2000 + i));
            if sync && i % 40 == 39 {
                out.push("sync".into());
            }
        }
        if sync {
            out.push("sync".into());
        }
        out.push("snap".into());
        if white_box {
            out.push(format!("freq {}", hotk));
        }
        push(&mut out, format!("ins {} 1", hotk));
        if sync {
            push(&mut out, "sync".into());
        }
        push(&mut out, format!("get {}", hotk));
        out.push("iter".into());
        out.push("drop".into());
        return out;
    }
    if profile == Profile::Regrow {
        // A weighted cache whose popularity sketch is sized while it holds a few heavy entries and
        // which then holds hundreds of light ones: lookups recorded early must still count later.
        let c = cfg.cap.unwrap_or(1000);
        let heavy = 6 + rng.below(8);
        let hv = c / 10 + rng.below(c / 20 + 1);
        let hot = [5000u64, 5001, 5002];
        for i in 0..heavy {
            push(&mut out, format!("ins {} {}", 1000 + i, hv));
            if rng.chance(1, 3) {
                push(&mut out, format!("get {}", 1000 + rng.below(i + 1)));
            }
        }
        for _ in 0..(4 + rng.below(14)) {
            let k = if rng.chance(2, 3) { rng.pick(&hot) } else { 1000 + rng.below(heavy) };
            if white_box {
                out.push(format!("freq {}", k));
            }
            push(&mut out, format!("get {}", k));
        }
        if sync {
            out.push("sync".into());
            out.push("snap".into());
        }
        for i in 0..heavy {
            if rng.chance(2, 3) {
                push(&mut out, format!("inv {}", 1000 + i));
            }
        }
        if sync {
            out.push("sync".into());
            out.push("snap".into());
        }
        let n = 140 + rng.below(300);
        for i in 0..n {
            out.push(format!("ins {} 1", 2000 + i));
            if rng.chance(1, 8) {
                let k = if rng.chance(1, 2) { rng.pick(&hot) } else { 2000 + rng.below(i + 1) };
                if white_box {
                    out.push(format!("freq {}", k));
                }
                out.push(format!("get {}", k));
            }
            if sync && rng.chance(1, 25) {
                out.push("sync".into());
            }
            if white_box && rng.chance(1, 20) {
                out.push("snap".into());
            }
        }
        if sync {
            out.push("sync".into());
        }
        out.push("snap".into());
        for k in hot {
            if white_box {
                out.push(format!("freq {}", k));
            }
            push(&mut out, format!("ins {} 1", k));
            push(&mut out, format!("get {}", k));
        }
        out.push("iter".into());
        out.push("drop".into());
        return out;
    }
    if profile == Profile::Batch {
        // Phases: a burst of inserts at one clock reading (more than one eviction batch),
        // a clock step to / beyond the deadline, then lookups of keys from all over the
        // burst, so that purge batch limits matter.
        let rounds = 1 + rng.below(3);
        for _ in 0..rounds {
            let n = 105 + rng.below(260);
            let base = rng.below(50);
            let heavy = cfg.weigher == WeigherKind::Val;
            for i in 0..n {
                let v = if heavy { rng.below(2) } else { rng.below(12) };
                out.push(format!("ins {} {}", base + i, v));
                if rng.chance(1, 40) {
                    out.push(format!("get {}", base + rng.below(i + 1)));
                }
            }
            if sync && rng.chance(1, 2) {
                out.push("sync".into());
            }
            out.push("snap".into());
            if heavy {
                // an in-place update far heavier than the capacity, then fresh keys
                let k = base + rng.below(n);
                push(&mut out, format!("ins {} {}", k, 2000 + rng.below(3000)));
                push(&mut out, format!("ins {} 1", base + n + 1));
                push(&mut out, format!("get {}", base + n + 1));
                push(&mut out, format!("ins {} 0", base + n + 2));
            }
            let d = rng.pick(&step_choices);
            out.push(format!("adv {}", d));
            for _ in 0..(3 + rng.below(12)) {
                let k = base + rng.below(n);
                match rng.below(6) {
                    0 | 1 => push(&mut out, format!("has {}", k)),
                    2 | 3 => push(&mut out, format!("get {}", k)),
                    4 => {
                        // every other iteration is created first and consumed after a clock step
                        if out.len() % 2 == 0 {
                            {
                    let d = step_choices[out.len() % step_choices.len()];
                    push(&mut out, format!("iterlag {}", d));
                }
                        } else {
                            push(&mut out, "iter".into());
                        }
                    }
                    _ => push(&mut out, format!("ins {} {}", k, rng.below(12))),
                }
            }
            if rng.chance(1, 2) {
                out.push(format!("adv {}", rng.pick(&step_choices)));
            }
        }
        out.push("iter".into());
        out.push("drop".into());
        return out;
    }
    for _ in 0..len {
        let r = rng.below(100);
        let (p_ins, p_get, p_has, p_iter, p_inv, p_invall, p_invif, p_sync, p_adv): (u64, u64, u64, u64, u64, u64, u64, u64, u64) =
            match profile {
                Profile::Mixed => (30, 25, 6, 4, 8, 2, 3, 10, 12),
                Profile::Burst => (45, 30, 4, 2, 8, 1, 1, 1, 8),
                Profile::Synced => (35, 30, 5, 3, 8, 2, 2, 0, 15),
                Profile::Boundary => (25, 22, 10, 5, 4, 2, 2, 8, 22),
                Profile::Churn => (38, 14, 4, 2, 24, 3, 3, 6, 6),
                Profile::Growth => (50, 18, 4, 3, 6, 1, 2, 8, 8),
                Profile::Scan => (40, 45, 2, 1, 3, 0, 0, 6, 3),
                Profile::Big | Profile::Batch | Profile::Oversize | Profile::Regrow | Profile::Growexp | Profile::Expnext | Profile::Lateread | Profile::Aging | Profile::Monoburst | Profile::Dangling | Profile::Overfill | Profile::Stamp => (55, 20, 2, 1, 8, 1, 1, 2, 10),
            };
        let mut acc = 0;
        let mut pick = |p: u64| { acc += p; r < acc };
        if pick(p_ins) {
            let k = key(&mut rng);
            let v = rng.below(12);
            if white_box {
                out.push(format!("freq {}", k));
            }
            push(&mut out, format!("ins {} {}", k, v));
        } else if pick(p_get) {
            let k = key(&mut rng);
            push(&mut out, format!("get {}", k));
        } else if pick(p_has) {
            let k = key(&mut rng);
            push(&mut out, format!("has {}", k));
        } else if pick(p_iter) {
            // every other iteration is created first and consumed after a clock step (no draw
            // from the PRNG: the rest of the history is the one the seed always gave)
            if out.len() % 2 == 0 {
                {
                    let d = step_choices[out.len() % step_choices.len()];
                    // on the concurrent cache every other one of these holds the iterator across
                    // a call instead of a clock step (creating an iterator locks nothing)
                    let sel = (out.len() / 2) % 8;
                    if sync && sel < 4 {
                        let k = (out.len() as u64 / 16) % nkeys;
                        let inner = match sel {
                            0 => "invall".to_string(),
                            1 => format!("inv {}", k),
                            2 => format!("ins {} {}", k, out.len() % 12),
                            _ => "sync".to_string(),
                        };
                        push(&mut out, format!("iterover {}", inner));
                    } else {
                        push(&mut out, format!("iterlag {}", d));
                    }
                }
            } else {
                push(&mut out, "iter".into());
            }
        } else if pick(p_inv) {
            let k = key(&mut rng);
            push(&mut out, format!("inv {}", k));
        } else if pick(p_invall) {
            push(&mut out, "invall".into());
        } else if pick(p_invif) {
            if sync {
                let k = key(&mut rng);
                push(&mut out, format!("get {}", k));
            } else {
                let s = match rng.below(4) {
                    0 => "invif true".to_string(),
                    1 => "invif false".to_string(),
                    2 => format!("invif kmod {} {}", 2 + rng.below(2), rng.below(2)),
                    _ => format!("invif vlt {}", rng.below(12)),
                };
                push(&mut out, s);
            }
        } else if pick(p_sync) {
            if sync {
                push(&mut out, "sync".into());
            } else {
                let k = key(&mut rng);
                push(&mut out, format!("has {}", k));
            }
        } else if pick(p_adv) {
            let d = rng.pick(&step_choices);
            out.push(format!("adv {}", d));
        } else {
            push(&mut out, "iter".into());
        }
        if sync && profile == Profile::Synced {
            out.push("sync".into());
            if white_box {
                out.push("snap".into());
            }
        }
    }
    if sync && rng.chance(2, 3) {
        out.push("sync".into());
        out.push("snap".into());
    }
    out.push("iter".into());
    // drop the cache, two times out of three with operations still queued
    out.push("drop".into());
    out
}

/// Interleavings of 2-4 logical threads on the concurrent cache through its phase-split API
/// (kind=concs): each call is split into its map step (`pins`/`pinv`/`pget`), optional
/// housekeeping (`maint`) and the enqueue of the held operation (`penq`), freely interleaved
/// with the other threads, clock steps, `sync` and `invall`. A `snap` after every event.
pub fn gen_concs(seed: u64, profile: Profile, len: usize) -> Vec<String> {
    let mut rng = Rng::new(seed);
    let cfg = gen_cfg(&mut rng, "concs", profile, "any");
    let mut out = vec![cfg.line(seed, profile)];
    let nthreads = 2 + rng.below(3);
    let nkeys = 1 + rng.below(5);
    let mut holding = vec![false; nthreads as usize];
    // start in either housekeeping regime
    if rng.chance(1, 2) {
        out.push("adv 600000000".into());
    }
    for _ in 0..len {
        let t = rng.below(nthreads);
        let k = rng.below(nkeys);
        let line = if holding[t as usize] {
            match rng.below(10) {
                0..=5 => {
                    holding[t as usize] = false;       // may answer `full`: then a later penq retries
                    format!("penq {}", t)
                }
                6 | 7 => "maint".to_string(),
                8 => format!("adv {}", rng.pick(&[100_000_000u64, 500_000_000, SEC, 3 * SEC])),
                _ => format!("pins {} {} {}", t, k, rng.below(12)),   // not enabled: bad-op
            }
        } else {
            match rng.below(20) {
                0..=7 => {
                    holding[t as usize] = true;
                    format!("pins {} {} {}", t, k, rng.below(12))
                }
                8..=11 => {
                    holding[t as usize] = true;
                    format!("pget {} {}", t, k)
                }
                12 | 13 => {
                    // holds an op only if the key was there; `holding` is refreshed below
                    format!("pinv {} {}", t, k)
                }
                14 => "maint".to_string(),
                15 => "sync".to_string(),
                16 => format!("adv {}", rng.pick(&[100_000_000u64, 500_000_000, SEC, 3 * SEC])),
                17 => "invall".to_string(),
                18 => format!("has {}", k),
                _ => "iter".to_string(),
            }
        };
        let is_pinv = line.starts_with("pinv");
        out.push(line);
        if is_pinv {
            // whether the thread now holds a Remove is known only at run time: let it try to
            // enqueue right away in half of the cases (bad-op when it holds nothing)
            if rng.chance(1, 2) {
                out.push(format!("penq {}", t));
            } else {
                holding[t as usize] = true;
            }
        }
        out.push("snap".into());
    }
    // wind down: everybody sends what it holds, maintenance, final snapshot, drop
    for t in 0..nthreads {
        out.push(format!("penq {}", t));
    }
    if rng.chance(2, 3) {
        out.push("sync".into());
        out.push("snap".into());
    }
    out.push("drop".into());
    out
}

/// Histories for the `inject` component: scripted logical threads 0..2 through the phase-split
/// API as in `gen_concs`, plus, decided by the harness at run time from `iseed`/`irate`, map steps
/// of logical threads 10..12 taken at the callback points inside maintenance runs. The injected
/// threads enqueue what they hold when the script tells them to (`penq 10` …).
pub fn gen_inject(seed: u64, profile: Profile, len: usize) -> Vec<String> {
    let mut rng = Rng::new(seed);
    let mut cfg = gen_cfg(&mut rng, "inject", profile, "any");
    if cfg.weigher == WeigherKind::None || matches!(cfg.weigher, WeigherKind::Const(_)) {
        cfg.weigher = rng.pick(&[WeigherKind::Val, WeigherKind::VMod(4), WeigherKind::VMod(5)]);
    }
    if cfg.cap == Some(0) {
        cfg.cap = Some(3);
    }
    // a third of the cases end with a refill (C03): weight = value, no expiry, capacity 1..8
    let refill = {
        let mut r2 = Rng::new(splitmix(seed ^ 0x0c03_0c03));
        if profile != Profile::Stamp && r2.chance(1, 3) {
            cfg.weigher = WeigherKind::Val;
            cfg.ttl = None;
            cfg.tti = None;
            cfg.cap = Some(1 + r2.below(8));
            true
        } else {
            false
        }
    };
    // a quarter of the other cases: time-to-live only, for the motif "an update whose clock reading
    // is older than its map write" (model T): see below
    let stamp = {
        let mut r4 = Rng::new(splitmix(seed ^ 0x0c05_0c05));
        if !refill && profile == Profile::Stamp {
            cfg.ttl = Some(r4.pick(&[SEC, 3 * SEC]));
            cfg.tti = None;
            if matches!(cfg.cap, Some(c) if c < 8) {
                cfg.cap = None;
            }
            true
        } else {
            false
        }
    };
    let nkeys = 1 + rng.below(4);
    let irate = rng.pick(&[1u64, 2, 3, 5]);
    let mut line = cfg.line(seed, profile);
    line.push_str(&format!(" irate={} ikeys={}", irate, nkeys));
    if stamp {
        line.push_str(" istamp=1");
    }
    let mut out = vec![line];
    if stamp {
        // Scripted whole-call updates of a resident key: at the update's clock reading another
        // logical thread may advance the clock (by 1 us or 600 ms) and update the key itself (the
        // harness injects that at the clock-read hook and notes the scripted call's reading);
        // then the clock moves to 300 ms before the deadline counted from "now": past the
        // deadline of the scripted value if 600 ms were injected, before it otherwise.
        let mut r5 = Rng::new(splitmix(seed ^ 0x7c05_7c05));
        let ttl = cfg.ttl.unwrap_or(SEC);
        for _ in 0..(2 + r5.below(3)) {
            let k = r5.below(nkeys);
            out.push(format!("ins {} {}", k, 1 + r5.below(4)));
            if r5.chance(1, 2) {
                out.push("sync".into());
            }
            out.push(format!("adv {}", r5.pick(&[1000u64, 100_000_000])));
            out.push(format!("ins {} {}", k, 5 + r5.below(4)));
            if r5.chance(1, 2) {
                out.push(format!("get {}", k));
            }
            out.push(format!("adv {}", ttl - 300_000_000));
            out.push(format!("get {}", k));
            out.push(format!("has {}", k));
            out.push("iter".into());
            if r5.chance(1, 2) {
                out.push("sync".into());
            }
            out.push("snap".into());
            out.push(format!("adv {}", 2 * ttl));
        }
    }
    let nthreads = 2 + rng.below(2);
    let mut holding = vec![false; nthreads as usize];
    if rng.chance(1, 2) {
        out.push("adv 600000000".into());
    }
    if rng.chance(1, 3) && profile != Profile::Stamp {
        // motif: an admission with two victims. Capacity 2, weight = value: keys 0 and 1 (weight 1
        // each) are resident, key 2 (weight 2) is made popular and inserted; the maintenance run
        // that admits it has callback points between the removals of its victims.
        out[0] = format!(
            "cfg kind=inject cap=2 w=val ttl=none tti=none hash=id profile={} seed={} irate={} ikeys=2",
            profile.name(), seed, rng.pick(&[2u64, 3, 4]));
        for l in ["pins 0 0 1", "penq 0", "pins 0 1 1", "penq 0", "sync", "snap",
                  "pget 0 2", "penq 0", "pget 0 2", "penq 0", "pget 0 2", "penq 0", "sync", "snap",
                  "pins 0 2 2", "penq 0", "maint", "snap", "pget 1 0", "penq 1", "pget 1 1", "penq 1",
                  "pget 1 2", "penq 1", "snap"] {
            out.push(l.to_string());
        }
    }
    {
        // motif (a quarter of the cases, independent stream): `invalidate_all` calls whose clock
        // reading and store are separated by other threads' inserts and invalidate_all calls at
        // later readings (injected at the clock-read hook), each followed by lookups of every key
        let mut r3 = Rng::new(splitmix(seed ^ 0x0d12_0d12));
        if r3.chance(1, 4) {
            for _ in 0..(2 + r3.below(4)) {
                let k = r3.below(nkeys);
                out.push(format!("pins 0 {} {}", k, r3.below(12)));
                out.push("penq 0".into());
                if r3.chance(1, 2) {
                    out.push("maint".into());
                }
                out.push(format!("adv {}", r3.pick(&[1000u64, 100_000_000])));
                out.push("invall".into());
                for kk in 0..nkeys {
                    out.push(format!("pget 1 {}", kk));
                    out.push("penq 1".into());
                }
                out.push("snap".into());
            }
        }
    }
    for _ in 0..len {
        let t = rng.below(nthreads);
        let k = rng.below(nkeys);
        let l = if holding[t as usize] && rng.chance(2, 3) {
            holding[t as usize] = false;
            format!("penq {}", t)
        } else {
            match rng.below(16) {
                0..=4 if !holding[t as usize] => {
                    holding[t as usize] = true;
                    format!("pins {} {} {}", t, k, rng.below(12))
                }
                5 | 6 if !holding[t as usize] => {
                    holding[t as usize] = true;
                    format!("pget {} {}", t, k)
                }
                7 => format!("penq {}", 10 + rng.below(6)),
                8 | 9 => format!("penq {}", 10 + rng.below(6)),
                10 | 11 | 12 => "maint".to_string(),
                13 => "sync".to_string(),
                14 => format!("adv {}", rng.pick(&[100_000_000u64, 500_000_000, SEC])),
                _ => "maint".to_string(),
            }
        };
        out.push(l);
        out.push("snap".into());
    }
    for t in (0..nthreads).chain(10..16) {
        out.push(format!("penq {}", t));
    }
    out.push("sync".into());
    out.push("snap".into());
    // a second round: what was injected during the last run is sent and applied as well
    for t in 10..16 {
        out.push(format!("penq {}", t));
    }
    out.push("sync".into());
    out.push("snap".into());
    if refill && !out[0].contains("cap=2 w=val ttl=none tti=none hash=id") {
        // C03 after a phase with steps injected into maintenance runs: nothing is injected any
        // more, every key of the phase is invalidated, and `max_capacity` fresh keys of weight 1
        // are inserted with a maintenance run after each: all of them fit and must be retained
        out.push("noinject".into());
        for t in (0..nthreads).chain(10..16) {
            out.push(format!("penq {}", t));
        }
        for k in 0..nkeys {
            out.push(format!("pinv 0 {}", k));
            out.push("penq 0".into());
        }
        out.push("sync".into());
        out.push("sync".into());
        out.push("snap".into());
        let c = cfg.cap.unwrap_or(1);
        for i in 0..c {
            out.push(format!("pins 0 {} 1", 1000 + i));
            out.push("penq 0".into());
            out.push("sync".into());
        }
        out.push("snap".into());
        for i in 0..c {
            out.push(format!("has {}", 1000 + i));
        }
    }
    out.push("drop".into());
    out
}
